(** * TVProofs.v — soundness of the certificate checker of [TV.v]: if [tv_check] accepts an IR
    program, a bytecode program and a certificate, then every terminating run of the IR interpreter
    model is matched by a run of the bytecode model with the same I/O trace (property C02, the
    translation [bc::CodeGen::translate]; the JIT runs the same bytecode). *)
From Coq Require Import ZArith List Bool Lia Zdiv Permutation Morphisms Setoid.
From HPBF Require Import Cell IO Expr BC IR X86 TV CellProofs ExprProofs BCWfProofs BCProofs Level0Proofs Level0Back X86Proofs.
Import ListNotations.
Open Scope Z_scope.
#[local] Existing Instances eqm_setoid Zplus_eqm Zminus_eqm Zmult_eqm Zopp_eqm.
Local Arguments Z.mul : simpl never.
Local Arguments Z.add : simpl never.
Local Arguments Z.sub : simpl never.
Local Arguments Z.pow : simpl never.
Local Arguments Z.modulo : simpl never.
Local Arguments Z.div : simpl never.

Section Poly.
Variable w : Z.
Hypothesis Hw : 0 <= w.
Let M := 2 ^ w.
Notation "a == b" := (eqm M a b) (at level 70).

Lemma Mpos : 0 < M. Proof. apply Z.pow_pos_nonneg; lia. Qed.

Lemma eval_ext : forall e g1 g2, (forall v, g1 v = g2 v) -> eval w e g1 = eval w e g2.
Proof.
  intros e g1 g2 H. unfold eval.
  assert (P : forall p, eval_part w g1 p = eval_part w g2 p).
  { intros [c vs]. unfold eval_part. cbn [fst snd]. revert c. induction vs as [|v vs IH]; intros c; [reflexivity|].
    cbn [fold_left]. rewrite H. apply IH. }
  generalize 0. induction e as [|p e IH]; intros a; [reflexivity|]. cbn [fold_left]. rewrite P. apply IH.
Qed.

(** [eval] is reduced modulo 2^w *)
Lemma eval_red : forall e g, eval w e g mod M = eval w e g.
Proof.
  intros e g. unfold eval.
  assert (G : forall l a, a mod M = a -> fold_left (fun val p => wadd w val (eval_part w g p)) l a mod M
                                       = fold_left (fun val p => wadd w val (eval_part w g p)) l a).
  { induction l as [|p l IH]; intros a A; [exact A|]. cbn [fold_left]. apply IH. unfold wadd. fold M.
    apply Z.mod_mod. pose proof Mpos; lia. }
  apply G. apply Z.mod_0_l. pose proof Mpos; lia.
Qed.

Lemma eqm_exact : forall a b, a == b -> a mod M = a -> b mod M = b -> a = b.
Proof. intros a b H A B. unfold eqm in H. congruence. Qed.

Lemma eval_eq : forall a b g, eval w a g == eval w b g -> eval w a g = eval w b g.
Proof. intros a b g H. apply (eqm_exact _ _ H); apply eval_red. Qed.

(** ** the canonical form *)
Lemma pcanon_den : forall rho e, den rho (pcanon w e) == den rho e.
Proof.
  intros rho e. unfold pcanon. rewrite amap_parts_den.
  assert (G : forall l m, amap_den rho (fold_left (fun m p => acc_add w (sort_z (snd p)) (fst p) m) l m)
                          == amap_den rho m + den rho l).
  { induction l as [|p l IH]; intros m; cbn [fold_left].
    - unfold den. cbn [fold_right]. replace (amap_den rho m + 0) with (amap_den rho m) by ring. reflexivity.
    - rewrite IH, (acc_add_den w Hw). rewrite den_cons. unfold dpart.
      rewrite (mon_perm rho _ _ (sort_z_perm (snd p))).
      replace (amap_den rho m + fst p * mon rho (snd p) + den rho l)
        with (amap_den rho m + (fst p * mon rho (snd p) + den rho l)) by ring. reflexivity. }
  rewrite G. cbn [amap_den fold_right]. replace (0 + den rho e) with (den rho e) by ring. reflexivity.
Qed.

Lemma tv_same_sound : forall a b g, tv_same w a b = true -> eval w a g = eval w b g.
Proof.
  intros a b g H. unfold tv_same in H. apply part_eqb_eq in H. apply eval_eq.
  rewrite !(eval_den w Hw). rewrite <- (pcanon_den g a), <- (pcanon_den g b), H. reflexivity.
Qed.

(** ** substitution *)
Lemma psubst_sound : forall f e g,
  eval w (psubst w f e) g = eval w e (fun v => eval w (f v) g).
Proof.
  intros f e g. apply (eqm_exact _ _); [|apply eval_red|apply eval_red].
  rewrite (eval_den w Hw _ e).
  induction e as [|[c vs] e IH]; [reflexivity|].
  cbn [psubst fold_right] in *. rewrite (eval_add w Hw). fold (psubst w f e). rewrite IH, den_cons.
  apply Zplus_eqm; [|reflexivity]. unfold dpart. cbn [fst snd].
  induction vs as [|v vs IV]; cbn [fold_right mon].
  - rewrite (eval_val w Hw). replace (c * 1) with c by ring. reflexivity.
  - rewrite (eval_mul w Hw), IV. ring_simplify. reflexivity.
Qed.
End Poly.

(** ** anchors, valuations and the simulation relation *)
Section Sim.
Variable w : Z.
Hypothesis Hw : 0 <= w.
Variable e : env.
Notation M := (2 ^ w).
Lemma Mp : 0 < M. Proof. apply Z.pow_pos_nonneg; lia. Qed.

Record anchor := { a_ti : tmap; a_tb : tmap; a_tmps : tmap; a_ptr : Z; a_pos : nat }.

Definition rho (A : anchor) (a : Z) : Z :=
  let m := a mod 5 in
  let k := a / 5 in
  if m =? 0 then tget (a_tb A) (a_ptr A + k)
  else if m =? 1 then tget (a_ti A) (a_ptr A + k)
  else if m =? 2 then tget (a_tb A) (a_ptr A + k)
  else if m =? 3 then tget (a_tmps A) k
  else from_u8 w (nth (a_pos A + Z.to_nat k) (input e) 0).

Lemma atom_mod : forall k r, 0 <= r < 5 -> (5 * k + r) mod 5 = r /\ (5 * k + r) / 5 = k.
Proof.
  intros k r R. split.
  - rewrite Z.add_comm, Z.mul_comm, Z_mod_plus_full. apply Z.mod_small. exact R.
  - rewrite Z.add_comm, Z.mul_comm, Z.div_add by lia. rewrite Z.div_small by exact R. lia.
Qed.

Lemma rho_acell : forall A k, rho A (acell k) = tget (a_tb A) (a_ptr A + k).
Proof.
  intros A k. unfold rho, acell. destruct (atom_mod k 0 ltac:(lia)) as [E1 E2].
  replace (5 * k) with (5 * k + 0) by lia. rewrite E1, E2. reflexivity.
Qed.
Lemma rho_axi : forall A k, rho A (axi k) = tget (a_ti A) (a_ptr A + k).
Proof. intros A k. unfold rho, axi. destruct (atom_mod k 1 ltac:(lia)) as [E1 E2]. rewrite E1, E2. reflexivity. Qed.
Lemma rho_axb : forall A k, rho A (axb k) = tget (a_tb A) (a_ptr A + k).
Proof. intros A k. unfold rho, axb. destruct (atom_mod k 2 ltac:(lia)) as [E1 E2]. rewrite E1, E2. reflexivity. Qed.
Lemma rho_atmp : forall A t, rho A (atmp t) = tget (a_tmps A) t.
Proof. intros A t. unfold rho, atmp. destruct (atom_mod t 3 ltac:(lia)) as [E1 E2]. rewrite E1, E2. reflexivity. Qed.
Lemma rho_ainp : forall A j, rho A (ainp j) = from_u8 w (nth (a_pos A + Z.to_nat j) (input e) 0).
Proof. intros A j. unfold rho, ainp. destruct (atom_mod j 4 ltac:(lia)) as [E1 E2]. rewrite E1, E2. reflexivity. Qed.

Definition ev (A : anchor) (p : expr) : Z := eval w p (rho A).

Lemma ev_var : forall A a, ev A (e_var a) = rho A a mod M.
Proof.
  intros A a. unfold ev. apply (eqm_exact w).
  - rewrite (eval_var w Hw). unfold eqm. rewrite Z.mod_mod by (pose proof Mp; lia). reflexivity.
  - apply eval_red. exact Hw.
  - apply Z.mod_mod. pose proof Mp. lia.
Qed.

Definition RI (A : anchor) (st : sst) (si : irst) : Prop :=
  ir_ptr si = a_ptr A /\ in_pos (ir_io si) = (a_pos A + Z.to_nat (s_n st))%nat /\ 0 <= s_n st /\
  forall k, tget (ir_tape si) (a_ptr A + k) = ev A (cell_i st k).

Definition RB (A : anchor) (st : sst) (sb : bcst) : Prop :=
  bc_ptr sb = a_ptr A /\ in_pos (bc_io sb) = (a_pos A + Z.to_nat (s_n st))%nat /\ 0 <= s_n st /\
  (forall k, tget (bc_tape sb) (a_ptr A + k) = ev A (cell_b st k)) /\
  (forall t p, look t (s_t st) = Some p -> tget (bc_tmps sb) t = ev A p).

Definition Rel (A : anchor) (st : sst) (si : irst) (sb : bcst) : Prop :=
  RI A st si /\ RB A st sb /\ ir_io si = bc_io sb /\
  (forall k, memz k (s_d st) = false -> tget (a_ti A) (a_ptr A + k) mod M = tget (a_tb A) (a_ptr A + k) mod M) /\
  (forall p, List.In p (s_nz st) -> ev A p <> 0).

(** ** concrete event lists *)
Fixpoint io_run (evs : list (option Z)) (io : iost) : iost * bool :=
  match evs with
  | [] => (io, true)
  | Some b :: r => match do_output e io b with IoOk _ io' => io_run r io' | IoFail io' => (io', false) end
  | None :: r => match do_input e io with IoOk _ io' => io_run r io' | IoFail io' => (io', false) end
  end.

Definition cev (A : anchor) (s : sev) : option Z :=
  match s with SOut p => Some (into_u8 w (ev A p)) | SIn => None end.

Lemma io_run_app : forall a b io,
  io_run (a ++ b) io = match io_run a io with (io', true) => io_run b io' | (io', false) => (io', false) end.
Proof.
  induction a as [|[x|] a IH]; intros b io; cbn [app io_run]; [reflexivity| |].
  - destruct (do_output e io x); [apply IH|reflexivity].
  - destruct (do_input e io); [apply IH|reflexivity].
Qed.

(** ** maps *)
Lemma look_cons : forall k k' v m, look k ((k', v) :: m) = if k' =? k then Some v else look k m.
Proof. reflexivity. Qed.

(** the value read by a successful input request *)
Lemma input_value : forall io b io', do_input e io = IoOk b io' ->
  b = nth (in_pos io) (input e) 0 /\ in_pos io' = S (in_pos io) /\ out_cnt io' = out_cnt io.
Proof.
  intros io b io' H. unfold do_input in H. destruct (in_absent e); [discriminate|].
  destruct (opt_nat_eqb (in_fail_at e) (in_pos io)); [discriminate|].
  destruct (nth_error (input e) (in_pos io)) as [x|] eqn:N; injection H as <- <-; cbn; (split; [|split; reflexivity]).
  - symmetry. apply nth_error_nth. exact N.
  - symmetry. apply nth_overflow. apply nth_error_None. exact N.
Qed.
Lemma output_pos : forall io b u io', do_output e io b = IoOk u io' -> in_pos io' = in_pos io.
Proof.
  intros io b u io' H. unfold do_output in H. destruct (negb (out_present e)); [injection H as _ <-; reflexivity|].
  destruct (opt_nat_eqb (out_fail_at e) (out_cnt io)); [discriminate|]. injection H as _ <-. reflexivity.
Qed.

(** ** IR side: symbolic execution of the straight-line part *)
Lemma sym_ir_step_frame : forall st i st' evs, sym_ir_step w st i = (st', evs) ->
  s_cb st' = s_cb st /\ s_t st' = s_t st /\ s_d st' = s_d st /\ s_nz st' = s_nz st.
Proof.
  intros st i st' evs H. destruct i; cbn [sym_ir_step] in H; injection H as <- _; repeat split; reflexivity.
Qed.
Lemma sym_ir_frame : forall l st st' evs, sym_ir w l st = (st', evs) ->
  s_cb st' = s_cb st /\ s_t st' = s_t st /\ s_d st' = s_d st /\ s_nz st' = s_nz st.
Proof.
  induction l as [|i l IH]; intros st st' evs H; cbn [sym_ir] in H.
  - injection H as <- _. repeat split; reflexivity.
  - destruct (sym_ir_step w st i) as [st1 e1] eqn:S1. destruct (sym_ir w l st1) as [st2 e2] eqn:S2.
    injection H as <- _. destruct (sym_ir_step_frame _ _ _ _ S1) as (A1 & A2 & A3 & A4).
    destruct (IH _ _ _ S2) as (B1 & B2 & B3 & B4). repeat split; congruence.
Qed.

Definition cellof (d : list Z) (x : Z -> Z) (m : amap) (k : Z) : expr :=
  match look k m with Some p => p | None => if memz k d then e_var (x k) else e_var (acell k) end.

Lemma cell_i_of : forall st k, cell_i st k = cellof (s_d st) axi (s_ci st) k.
Proof. reflexivity. Qed.
Lemma cell_b_of : forall st k, cell_b st k = cellof (s_d st) axb (s_cb st) k.
Proof. reflexivity. Qed.

(** sequential writes of evaluated polynomials *)
Lemma write_list : forall A d x ptr (vals : list (Z * expr)) m tape,
  (forall k, tget tape (ptr + k) = ev A (cellof d x m k)) ->
  forall k, tget (fold_left (fun t kv => tset t (ptr + fst kv) (ev A (snd kv))) vals tape) (ptr + k)
            = ev A (cellof d x (fold_left (fun m kv => kv :: m) vals m) k).
Proof.
  intros A d x ptr vals. induction vals as [|[k0 p0] vals IH]; intros m tape H k; cbn [fold_left]; [apply H|].
  apply IH. intros k'. rewrite MachineProofs.tget_tset. unfold cellof. cbn [fst snd]. rewrite look_cons.
  destruct (k0 =? k') eqn:E.
  - apply Z.eqb_eq in E. subst k'. rewrite Z.eqb_refl. reflexivity.
  - destruct (ptr + k0 =? ptr + k') eqn:E2; [apply Z.eqb_eq in E2; apply Z.eqb_neq in E; lia|]. apply H.
Qed.

Lemma ir_calc_fold : forall (vals : list (Z * Z)) s,
  ir_tape (fold_left (fun s vv => ir_write s (fst vv) (snd vv)) vals s)
  = fold_left (fun t vv => tset t (ir_ptr s + fst vv) (snd vv)) vals (ir_tape s)
  /\ ir_ptr (fold_left (fun s vv => ir_write s (fst vv) (snd vv)) vals s) = ir_ptr s
  /\ ir_io (fold_left (fun s vv => ir_write s (fst vv) (snd vv)) vals s) = ir_io s.
Proof.
  induction vals as [|[k v] vals IH]; intros s; cbn [fold_left]; [repeat split; reflexivity|].
  destruct (IH (ir_write s k v)) as (E1 & E2 & E3). cbn [fst snd]. rewrite E1, E2, E3. cbn. repeat split; reflexivity.
Qed.

Lemma fold_left_map_l : forall (A B C : Type) (f : A -> B -> A) (g : C -> B) l a,
  fold_left f (map g l) a = fold_left (fun a x => f a (g x)) l a.
Proof. intros A B C f g l. induction l as [|x l IH]; intros a; [reflexivity|]. cbn. apply IH. Qed.

Lemma RI_read : forall A st si k, RI A st si -> ir_read si k = ev A (cell_i st k).
Proof. intros A st si k (P & _ & _ & C). unfold ir_read. rewrite P. apply C. Qed.

Lemma from_u8_ainp : forall A n io b io', 0 <= n -> in_pos io = (a_pos A + Z.to_nat n)%nat ->
  do_input e io = IoOk b io' -> from_u8 w b = ev A (e_var (ainp n)).
Proof.
  intros A n io b io' N P H. destruct (input_value _ _ _ H) as (B & _ & _).
  rewrite ev_var, rho_ainp. unfold from_u8, from_u64. rewrite Z.mod_mod by (pose proof Mp; lia).
  rewrite B, P. reflexivity.
Qed.

Lemma sym_ir_step_sound : forall A st si i st' evs, is_simple i = true -> RI A st si ->
  sym_ir_step w st i = (st', evs) -> forall rest f,
  match io_run (map (cev A) evs) (ir_io si) with
  | (io', true) => exists si', ir_exec w e false (S f) (i :: rest) si = ir_exec w e false f rest si'
                               /\ ir_io si' = io' /\ RI A st' si'
  | (io', false) => exists si', ir_exec w e false (S f) (i :: rest) si = Stopped si' /\ ir_io si' = io'
  end.
Proof.
  intros A st si i st' evs SI R H rest f. pose proof R as (P & IP & N & CE).
  destruct i as [src|dst|calcs|c sh b o|c sh b]; try discriminate; cbn [sym_ir_step] in H; injection H as <- <-;
    cbn [map cev io_run ir_exec].
  - rewrite (RI_read A st si src R).
    destruct (do_output e (ir_io si) (into_u8 w (ev A (cell_i st src)))) as [u io'|io'] eqn:O.
    + exists (ir_set_io si io'). split; [reflexivity|]. split; [reflexivity|].
      split; [exact P|]. split; [cbn; rewrite (output_pos _ _ _ _ O); exact IP|]. split; [exact N|exact CE].
    + exists (ir_set_io si io'). split; reflexivity.
  - destruct (do_input e (ir_io si)) as [b io'|io'] eqn:I.
    + exists (ir_write (ir_set_io si io') dst (from_u8 w b)). split; [reflexivity|]. split; [reflexivity|].
      destruct (input_value _ _ _ I) as (_ & IP' & _).
      split; [exact P|]. split; [cbn; rewrite IP', IP, Z2Nat.inj_add by lia; cbn; lia|]. split; [cbn; lia|].
      intros k. cbn [ir_write ir_set_io ir_tape ir_ptr]. rewrite MachineProofs.tget_tset.
      unfold cell_i. cbn [set_n set_ci s_ci s_d]. rewrite look_cons. rewrite P.
      destruct (dst =? k) eqn:E.
      * apply Z.eqb_eq in E. subst k. rewrite Z.eqb_refl. apply (from_u8_ainp A (s_n st) _ _ _ N IP I).
      * destruct (a_ptr A + dst =? a_ptr A + k) eqn:E2; [apply Z.eqb_eq in E2; apply Z.eqb_neq in E; lia|]. apply CE.
    + exists (ir_set_io si io'). split; reflexivity.
  - exists (ir_calc w calcs si). split; [reflexivity|].
    unfold ir_calc. destruct (ir_calc_fold (map (fun ce => (fst ce, eval w (snd ce) (ir_read si))) calcs) si) as (E1 & E2 & E3).
    split; [exact E3|]. split; [rewrite E2; exact P|]. split; [rewrite E3; exact IP|]. split; [exact N|].
    intros k. rewrite E1. rewrite cell_i_of. cbn [set_ci s_ci s_d].
    rewrite fold_left_map_l. rewrite (fold_left_map_l _ _ _ (fun m kv => kv :: m)).
    rewrite P.
    pose proof (write_list A (s_d st) axi (a_ptr A)
                  (map (fun ce => (fst ce, psubst w (cell_i st) (snd ce))) calcs) (s_ci st) (ir_tape si)) as WL.
    rewrite !fold_left_map_l in WL. cbn [fst snd] in WL.
    rewrite <- WL; [|intros k'; rewrite <- cell_i_of; apply CE].
    f_equal. clear WL E1 E2 E3 SI.
    generalize (ir_tape si). induction calcs as [|[v ex] calcs IH]; intros t; [reflexivity|].
    cbn [fold_left fst snd]. rewrite IH. f_equal. f_equal.
    unfold ev. rewrite (psubst_sound w Hw). apply eval_ext. intros x. apply (RI_read A st si x R).
Qed.

Lemma sym_ir_sound : forall pre, forallb is_simple pre = true -> forall A st si st' evs rest f, RI A st si ->
  sym_ir w pre st = (st', evs) ->
  match io_run (map (cev A) evs) (ir_io si) with
  | (io', true) => exists si', ir_exec w e false (length pre + f) (pre ++ rest) si = ir_exec w e false f rest si'
                               /\ ir_io si' = io' /\ RI A st' si'
  | (io', false) => exists si', ir_exec w e false (length pre + f) (pre ++ rest) si = Stopped si' /\ ir_io si' = io'
  end.
Proof.
  induction pre as [|i pre IH]; intros SP A st si st' evs rest f R H; cbn [sym_ir] in H.
  - injection H as <- <-. cbn. exists si. split; [reflexivity|]. split; [reflexivity|exact R].
  - cbn [forallb] in SP. apply andb_prop in SP. destruct SP as [Si SP].
    destruct (sym_ir_step w st i) as [st1 e1] eqn:S1. destruct (sym_ir w pre st1) as [st2 e2] eqn:S2.
    injection H as <- <-. rewrite map_app, io_run_app.
    pose proof (sym_ir_step_sound A st si i st1 e1 Si R S1 (pre ++ rest) (length pre + f)) as ST.
    destruct (io_run (map (cev A) e1) (ir_io si)) as [io1 [|]].
    + destruct ST as (si1 & E1 & I1 & R1). specialize (IH SP A st1 si1 st2 e2 rest f R1 S2). rewrite I1 in IH.
      cbn [length app plus]. rewrite E1.
      destruct (io_run (map (cev A) e2) io1) as [io2 [|]]; exact IH.
    + destruct ST as (si1 & E1 & I1). exists si1. cbn [length app plus]. split; [exact E1|exact I1].
Qed.

(** ** bytecode side *)
Lemma wadd_ev : forall A p q, wadd w (ev A p) (ev A q) = ev A (e_add w p q).
Proof.
  intros A p q. apply (eqm_exact w).
  - unfold ev. rewrite (eval_add w Hw). unfold wadd, eqm. rewrite Z.mod_mod by (pose proof Mp; lia). reflexivity.
  - unfold wadd. apply Z.mod_mod. pose proof Mp; lia.
  - apply eval_red. exact Hw.
Qed.
Lemma wsub_ev : forall A p q, wadd w (ev A p) (wneg w (ev A q)) = ev A (e_add w p (e_neg w q)).
Proof.
  intros A p q. apply (eqm_exact w).
  - unfold ev. rewrite (eval_add w Hw), (eval_neg w Hw). unfold wadd, wneg, eqm.
    rewrite Z.mod_mod by (pose proof Mp; lia). rewrite Zplus_mod_idemp_r. reflexivity.
  - unfold wadd. apply Z.mod_mod. pose proof Mp; lia.
  - apply eval_red. exact Hw.
Qed.
Lemma wmul_ev : forall A p q, wmul w (ev A p) (ev A q) = ev A (e_mul w p q).
Proof.
  intros A p q. apply (eqm_exact w).
  - unfold ev. rewrite (eval_mul w Hw). unfold wmul, eqm. rewrite Z.mod_mod by (pose proof Mp; lia). reflexivity.
  - unfold wmul. apply Z.mod_mod. pose proof Mp; lia.
  - apply eval_red. exact Hw.
Qed.
Lemma ev_nil : forall A, ev A [] = 0.
Proof. reflexivity. Qed.
Lemma ev_imm : forall A c, imm_ok w c = true -> ev A (e_val c) = c.
Proof.
  intros A c H. unfold imm_ok in H. apply andb_prop in H. destruct H as [H1 H2].
  apply Z.leb_le in H1. apply Z.ltb_lt in H2. apply (eqm_exact w).
  - unfold ev. rewrite (eval_val w Hw). reflexivity.
  - apply eval_red. exact Hw.
  - apply Z.mod_small. lia.
Qed.

(** the part of the bytecode state the relation looks at *)
Definition bsame (s s' : bcst) : Prop :=
  bc_ptr s' = bc_ptr s /\ bc_io s' = bc_io s /\ bc_pc s' = bc_pc s.

Lemma RB_set_mem : forall A st sb k p v, RB A st sb -> v = ev A p ->
  RB A (set_cb st ((k, p) :: s_cb st)) (bc_set_mem sb k v).
Proof.
  intros A st sb k p v (P & IP & N & C & T) V. split; [exact P|]. split; [exact IP|]. split; [exact N|]. split.
  - intros k'. cbn [bc_set_mem bc_tape]. rewrite MachineProofs.tget_tset. unfold cell_b. cbn [set_cb s_cb s_d].
    rewrite look_cons, P. destruct (k =? k') eqn:E.
    + apply Z.eqb_eq in E. subst k'. rewrite Z.eqb_refl. exact V.
    + destruct (a_ptr A + k =? a_ptr A + k') eqn:E2; [apply Z.eqb_eq in E2; apply Z.eqb_neq in E; lia|]. apply C.
  - exact T.
Qed.

Lemma RB_set_tmp : forall A st sb t p v, RB A st sb -> v = ev A p ->
  RB A (set_t st ((t, p) :: s_t st)) (bc_set_tmp sb t v).
Proof.
  intros A st sb t p v (P & IP & N & C & T) V. split; [exact P|]. split; [exact IP|]. split; [exact N|]. split.
  - exact C.
  - intros t' p'. cbn [set_t s_t]. rewrite look_cons. cbn [bc_set_tmp bc_tmps]. rewrite MachineProofs.tget_tset.
    destruct (t =? t') eqn:E; [intros Q; injection Q as <-; exact V|apply T].
Qed.

Ltac bsame_refl := (split; [reflexivity|split; reflexivity]).
Ltac frame4 := (split; [reflexivity|split; [reflexivity|split; reflexivity]]).

Lemma sym_read_sound : forall A st sb l p st1, RB A st sb -> sym_read w st l = Some (p, st1) ->
  fst (bc_read w sb l) = ev A p /\ RB A st1 (snd (bc_read w sb l)) /\ bsame sb (snd (bc_read w sb l))
  /\ s_ci st1 = s_ci st /\ s_d st1 = s_d st /\ s_nz st1 = s_nz st /\ s_n st1 = s_n st.
Proof.
  intros A st sb l p st1 R H. pose proof R as (P & IP & N & C & T).
  destruct l as [k|k|t|c]; cbn [sym_read bc_read fst snd] in *.
  - injection H as <- <-. unfold bc_mem. rewrite P. split; [apply C|]. split; [exact R|]. split; [bsame_refl|frame4].
  - injection H as <- <-. unfold bc_mem. rewrite P. split; [apply C|].
    split; [apply RB_set_mem; [exact R|reflexivity]|]. split; [bsame_refl|frame4].
  - destruct (look t (s_t st)) as [q|] eqn:L; [|discriminate]. injection H as <- <-.
    split; [apply (T t q L)|]. split; [exact R|]. split; [bsame_refl|frame4].
  - destruct (imm_ok w c) eqn:I; [|discriminate]. injection H as <- <-.
    split; [symmetry; apply ev_imm; exact I|]. split; [exact R|]. split; [bsame_refl|frame4].
Qed.

Lemma sym_write_sound : forall A st sb l p v, RB A st sb -> v = ev A p ->
  RB A (sym_write st l p) (bc_write sb l v) /\ bsame sb (bc_write sb l v)
  /\ s_ci (sym_write st l p) = s_ci st /\ s_d (sym_write st l p) = s_d st
  /\ s_nz (sym_write st l p) = s_nz st /\ s_n (sym_write st l p) = s_n st.
Proof.
  intros A st sb l p v R V. destruct l as [k|k|t|c]; cbn [sym_write bc_write].
  - split; [apply RB_set_mem; assumption|]. split; [bsame_refl|frame4].
  - split; [apply RB_set_mem; assumption|]. split; [bsame_refl|frame4].
  - split; [apply RB_set_tmp; assumption|]. split; [bsame_refl|frame4].
  - split; [exact R|]. split; [bsame_refl|frame4].
Qed.

Lemma bsame_trans : forall a b c, bsame a b -> bsame b c -> bsame a c.
Proof. intros a b c (A1 & A2 & A3) (B1 & B2 & B3). repeat split; congruence. Qed.

Lemma sym_binop_sound : forall A (op : Z -> Z -> Z) (f : expr -> expr -> expr) st sb d a b st',
  (forall p q, op (ev A p) (ev A q) = ev A (f p q)) ->
  RB A st sb -> sym_binop w f st d a b = Some st' ->
  RB A st' (bc_binop w op sb d a b) /\ bsame sb (bc_binop w op sb d a b)
  /\ s_ci st' = s_ci st /\ s_d st' = s_d st /\ s_nz st' = s_nz st /\ s_n st' = s_n st.
Proof.
  intros A op f st sb d a b st' OP R H. unfold sym_binop, bc_binop in *.
  destruct (loc_eqb d a).
  - destruct (sym_read w st b) as [[vb s1]|] eqn:R1; [|discriminate].
    destruct (sym_read w s1 a) as [[va s2]|] eqn:R2; [|discriminate]. injection H as <-.
    destruct (sym_read_sound A st sb b vb s1 R R1) as (V1 & RB1 & S1 & F1).
    destruct (bc_read w sb b) as [xb sb1]. cbn [fst snd] in *.
    destruct (sym_read_sound A s1 sb1 a va s2 RB1 R2) as (V2 & RB2 & S2 & F2).
    destruct (bc_read w sb1 a) as [xa sb2]. cbn [fst snd] in *.
    destruct (sym_write_sound A s2 sb2 d (f va vb) (op xa xb) RB2 ltac:(rewrite V1, V2; apply OP)) as (RW & SW & FW).
    split; [exact RW|]. split; [exact (bsame_trans _ _ _ (bsame_trans _ _ _ S1 S2) SW)|].
    destruct F1 as (? & ? & ? & ?), F2 as (? & ? & ? & ?), FW as (? & ? & ? & ?).
    split; [congruence|]. split; [congruence|]. split; congruence.
  - destruct (sym_read w st a) as [[va s1]|] eqn:R1; [|discriminate].
    destruct (sym_read w s1 b) as [[vb s2]|] eqn:R2; [|discriminate]. injection H as <-.
    destruct (sym_read_sound A st sb a va s1 R R1) as (V1 & RB1 & S1 & F1).
    destruct (bc_read w sb a) as [xa sb1]. cbn [fst snd] in *.
    destruct (sym_read_sound A s1 sb1 b vb s2 RB1 R2) as (V2 & RB2 & S2 & F2).
    destruct (bc_read w sb1 b) as [xb sb2]. cbn [fst snd] in *.
    destruct (sym_write_sound A s2 sb2 d (f va vb) (op xa xb) RB2 ltac:(rewrite V1, V2; apply OP)) as (RW & SW & FW).
    split; [exact RW|]. split; [exact (bsame_trans _ _ _ (bsame_trans _ _ _ S1 S2) SW)|].
    destruct F1 as (? & ? & ? & ?), F2 as (? & ? & ? & ?), FW as (? & ? & ? & ?).
    split; [congruence|]. split; [congruence|]. split; congruence.
Qed.

(** ** the bytecode program *)
Variable code : list binstr.
Variable fetch : Z -> option binstr.
Hypothesis Hfetch : forall pc, fetch pc = code_at code pc.
Notation len := (Z.of_nat (length code)).
Notation bexec := (bc_exec w e false fetch len).

Lemma code_at_lt : forall pc i, code_at code pc = Some i -> 0 <= pc < len.
Proof.
  intros pc i H. unfold code_at in H. destruct (pc <? 0) eqn:N; [discriminate|]. apply Z.ltb_ge in N.
  assert (L : (Z.to_nat pc < length code)%nat) by (apply nth_error_Some; congruence). lia.
Qed.

Lemma bexec_at : forall f s i, code_at code (bc_pc s) = Some i ->
  bexec (S f) s = bc_exec w e false fetch len (S f) s /\ (bc_pc s =? len) = false /\ fetch (bc_pc s) = Some i.
Proof.
  intros f s i H. pose proof (code_at_lt _ _ H) as L. split; [reflexivity|]. split; [apply Z.eqb_neq; lia|].
  rewrite Hfetch. exact H.
Qed.

Lemma RB_next : forall A st s, RB A st s -> RB A st (next s).
Proof. intros A st s R. exact R. Qed.

Lemma RB_bsame_io : forall s s', bsame s s' -> bc_io s' = bc_io s.
Proof. intros s s' (_ & H & _). exact H. Qed.

Lemma sym_bc_step_sound : forall A st sb i st' evs, RB A st sb -> sym_bc_step w st i = Some (st', evs) ->
  code_at code (bc_pc sb) = Some i -> forall f,
  match io_run (map (cev A) evs) (bc_io sb) with
  | (io', true) => exists sb', bexec (S f) sb = bexec f sb' /\ bc_io sb' = io' /\ RB A st' sb'
                               /\ bc_pc sb' = bc_pc sb + 1
                               /\ s_ci st' = s_ci st /\ s_d st' = s_d st /\ s_nz st' = s_nz st
  | (io', false) => exists sb', bexec (S f) sb = Stopped sb' /\ bc_io sb' = io'
  end.
Proof.
  intros A st sb i st' evs R H CA f. destruct (bexec_at f sb i CA) as (_ & NL & FE).
  pose proof R as (P & IP & N & C & T).
  assert (BIN : forall op fs d a b s1, (forall p q, op (ev A p) (ev A q) = ev A (fs p q)) ->
            sym_binop w fs st d a b = Some s1 ->
            exists sb', bc_io sb' = bc_io sb /\ RB A s1 sb' /\ bc_pc sb' = bc_pc sb + 1
                        /\ s_ci s1 = s_ci st /\ s_d s1 = s_d st /\ s_nz s1 = s_nz st
                        /\ sb' = next (bc_binop w op sb d a b)).
  { intros op fs d a b s1 OP SB. destruct (sym_binop_sound A op fs st sb d a b s1 OP R SB) as (R1 & (B1 & B2 & B3) & F1 & F2 & F3 & F4).
    exists (next (bc_binop w op sb d a b)). split; [exact B2|]. split; [exact R1|]. split; [cbn; rewrite B3; reflexivity|].
    split; [exact F1|]. split; [exact F2|]. split; [exact F3|reflexivity]. }
  destruct i as [|c sh|sh|dst|src|c off|c off|d a b|d a b|d a b|d a]; cbn [sym_bc_step] in H; try discriminate.
  - injection H as <- <-. cbn [map io_run]. exists (next sb). cbn [bc_exec]. rewrite NL, FE.
    split; [reflexivity|]. split; [reflexivity|]. split; [exact R|]. split; [reflexivity|]. split; [reflexivity|split; reflexivity].
  - injection H as <- <-. cbn [map cev io_run bc_exec]. rewrite NL, FE.
    destruct (do_input e (bc_io sb)) as [b io'|io'] eqn:I.
    + exists (next (bc_set_mem (bc_set_io sb io') dst (from_u8 w b))). split; [reflexivity|]. split; [reflexivity|].
      destruct (input_value _ _ _ I) as (_ & IP' & _).
      split.
      * assert (R0 : RB A (set_n st (s_n st + 1)) (bc_set_io sb io')).
        { split; [exact P|]. split; [cbn; rewrite IP', IP, Z2Nat.inj_add by lia; cbn; lia|]. split; [cbn; lia|]. split; [exact C|exact T]. }
        apply (RB_set_mem A (set_n st (s_n st + 1)) (bc_set_io sb io') dst (e_var (ainp (s_n st))) (from_u8 w b) R0).
        apply (from_u8_ainp A (s_n st) _ _ _ N IP I).
      * split; [reflexivity|]. split; [reflexivity|split; reflexivity].
    + exists (bc_set_io sb io'). split; reflexivity.
  - injection H as <- <-. cbn [map cev io_run bc_exec]. rewrite NL, FE.
    unfold bc_mem. rewrite P, C.
    destruct (do_output e (bc_io sb) (into_u8 w (ev A (cell_b st src)))) as [u io'|io'] eqn:O.
    + exists (next (bc_set_io sb io')). split; [reflexivity|]. split; [reflexivity|].
      split; [split; [exact P|]; split; [cbn; rewrite (output_pos _ _ _ _ O); exact IP|]; split; [exact N|]; split; [exact C|exact T]|].
      split; [reflexivity|]. split; [reflexivity|split; reflexivity].
    + exists (bc_set_io sb io'). split; reflexivity.
  - destruct (sym_binop w (e_add w) st d a b) as [s1|] eqn:SB; [|discriminate]. injection H as <- <-.
    destruct (BIN (wadd w) (e_add w) d a b s1 (wadd_ev A) SB) as (sb' & I1 & R1 & P1 & F1 & F2 & F3 & EQ).
    cbn [map io_run]. exists sb'. cbn [bc_exec]. rewrite NL, FE. subst sb'.
    split; [reflexivity|]. split; [exact I1|]. split; [exact R1|]. split; [exact P1|]. split; [exact F1|split; [exact F2|exact F3]].
  - destruct (sym_binop w (fun x y => e_add w x (e_neg w y)) st d a b) as [s1|] eqn:SB; [|discriminate]. injection H as <- <-.
    destruct (BIN (fun x y => wadd w x (wneg w y)) (fun x y => e_add w x (e_neg w y)) d a b s1 (wsub_ev A) SB)
      as (sb' & I1 & R1 & P1 & F1 & F2 & F3 & EQ).
    cbn [map io_run]. exists sb'. cbn [bc_exec]. rewrite NL, FE. subst sb'.
    split; [reflexivity|]. split; [exact I1|]. split; [exact R1|]. split; [exact P1|]. split; [exact F1|split; [exact F2|exact F3]].
  - destruct (sym_binop w (e_mul w) st d a b) as [s1|] eqn:SB; [|discriminate]. injection H as <- <-.
    destruct (BIN (wmul w) (e_mul w) d a b s1 (wmul_ev A) SB) as (sb' & I1 & R1 & P1 & F1 & F2 & F3 & EQ).
    cbn [map io_run]. exists sb'. cbn [bc_exec]. rewrite NL, FE. subst sb'.
    split; [reflexivity|]. split; [exact I1|]. split; [exact R1|]. split; [exact P1|]. split; [exact F1|split; [exact F2|exact F3]].
  - destruct (sym_read w st a) as [[v s1]|] eqn:SR; [|discriminate]. injection H as <- <-.
    destruct (sym_read_sound A st sb a v s1 R SR) as (V1 & RB1 & (B1 & B2 & B3) & F1 & F2 & F3 & F4).
    cbn [map io_run bc_exec]. rewrite NL, FE. destruct (bc_read w sb a) as [x sb1]. cbn [fst snd] in *.
    destruct (sym_write_sound A s1 sb1 d v x RB1 V1) as (RW & (W1 & W2 & W3) & G1 & G2 & G3 & G4).
    exists (next (bc_write sb1 d x)). split; [reflexivity|]. split; [cbn; congruence|]. split; [exact RW|].
    split; [cbn; congruence|]. split; [congruence|]. split; congruence.
Qed.

Lemma sym_bc_sound : forall seg A st sb st' evs, RB A st sb -> sym_bc w seg st = Some (st', evs) ->
  (forall j, (j < length seg)%nat -> code_at code (bc_pc sb + Z.of_nat j) = nth_error seg j) -> forall f,
  match io_run (map (cev A) evs) (bc_io sb) with
  | (io', true) => exists sb', bexec (length seg + f) sb = bexec f sb' /\ bc_io sb' = io' /\ RB A st' sb'
                               /\ bc_pc sb' = bc_pc sb + Z.of_nat (length seg)
                               /\ s_ci st' = s_ci st /\ s_d st' = s_d st /\ s_nz st' = s_nz st
  | (io', false) => exists sb', bexec (length seg + f) sb = Stopped sb' /\ bc_io sb' = io'
  end.
Proof.
  induction seg as [|i seg IH]; intros A st sb st' evs R H AT f; cbn [sym_bc] in H.
  - injection H as <- <-. cbn. exists sb. split; [reflexivity|]. split; [reflexivity|]. split; [exact R|].
    split; [lia|]. split; [reflexivity|split; reflexivity].
  - destruct (sym_bc_step w st i) as [[st1 e1]|] eqn:S1; [|discriminate].
    destruct (sym_bc w seg st1) as [[st2 e2]|] eqn:S2; [|discriminate]. injection H as <- <-.
    rewrite map_app, io_run_app.
    assert (CA : code_at code (bc_pc sb) = Some i).
    { specialize (AT 0%nat ltac:(cbn; lia)). cbn in AT. rewrite Z.add_0_r in AT. exact AT. }
    pose proof (sym_bc_step_sound A st sb i st1 e1 R S1 CA (length seg + f)) as ST.
    destruct (io_run (map (cev A) e1) (bc_io sb)) as [io1 [|]].
    + destruct ST as (sb1 & E1 & I1 & R1 & P1 & F1 & F2 & F3).
      assert (AT1 : forall j, (j < length seg)%nat -> code_at code (bc_pc sb1 + Z.of_nat j) = nth_error seg j).
      { intros j J. specialize (AT (S j) ltac:(cbn; lia)). cbn [nth_error] in AT. rewrite <- AT. f_equal. lia. }
      specialize (IH A st1 sb1 st2 e2 R1 S2 AT1 f). rewrite I1 in IH.
      cbn [length plus]. rewrite E1.
      destruct (io_run (map (cev A) e2) io1) as [io2 [|]].
      * destruct IH as (sb2 & E2 & I2 & R2 & P2 & G1 & G2 & G3). exists sb2. split; [exact E2|]. split; [exact I2|].
        split; [exact R2|]. split; [rewrite P2, P1; cbn [length]; lia|]. split; [congruence|split; congruence].
      * exact IH.
    + destruct ST as (sb1 & E1 & I1). exists sb1. cbn [length plus]. split; [exact E1|exact I1].
Qed.

(** the extracted segment sits in the code at [pc] and consists of straight-line instructions *)
Lemma seg_from_nth : forall l pc stop head j, (j < length (seg_from l pc stop head))%nat ->
  nth_error (seg_from l pc stop head) j = nth_error l j.
Proof.
  induction l as [|i l IH]; intros pc stop head j J; cbn [seg_from] in *; [cbn in J; lia|].
  destruct ((pc <? stop) && is_arith i && negb (at_head head pc)); [|cbn in J; lia].
  destruct j as [|j]; [reflexivity|]. cbn [nth_error]. apply IH. cbn [length] in J. lia.
Qed.

Lemma seg_from_bound : forall l pc stop head, pc + Z.of_nat (length (seg_from l pc stop head)) <= Z.max pc stop.
Proof.
  induction l as [|i l IH]; intros pc stop head; cbn [seg_from]; [cbn; lia|].
  destruct ((pc <? stop) && is_arith i && negb (at_head head pc)) eqn:E; [|cbn; lia].
  apply andb_prop in E. destruct E as [E _]. apply andb_prop in E. destruct E as [E _]. apply Z.ltb_lt in E.
  cbn [length]. specialize (IH (pc + 1) stop head). lia.
Qed.

Lemma nth_error_skipn_add : forall (A : Type) n (l : list A) j, nth_error (skipn n l) j = nth_error l (n + j).
Proof.
  intros A n. induction n as [|n IH]; intros l j; [reflexivity|]. destruct l as [|x l]; [destruct j; reflexivity|].
  cbn [skipn plus nth_error]. apply IH.
Qed.

Lemma segment_at : forall pc stop head j, 0 <= pc -> (j < length (bc_segment code pc stop head))%nat ->
  code_at code (pc + Z.of_nat j) = nth_error (bc_segment code pc stop head) j.
Proof.
  intros pc stop head j P J. unfold bc_segment in *. destruct (pc <? 0) eqn:N; [apply Z.ltb_lt in N; lia|].
  rewrite (seg_from_nth _ _ _ _ _ J). unfold code_at.
  destruct (pc + Z.of_nat j <? 0) eqn:N2; [apply Z.ltb_lt in N2; lia|].
  rewrite nth_error_skipn_add. f_equal. lia.
Qed.

Lemma segment_bound : forall pc stop head, 0 <= pc -> pc <= stop ->
  pc + Z.of_nat (length (bc_segment code pc stop head)) <= stop.
Proof.
  intros pc stop head P S. unfold bc_segment. destruct (pc <? 0) eqn:N; [apply Z.ltb_lt in N; lia|].
  pose proof (seg_from_bound (skipn (Z.to_nat pc) code) pc stop head). lia.
Qed.

Lemma split_simple_spec : forall l pre rest, split_simple l = (pre, rest) ->
  l = pre ++ rest /\ forallb is_simple pre = true /\ match rest with i :: _ => is_simple i = false | [] => True end.
Proof.
  induction l as [|i l IH]; intros pre rest H; cbn [split_simple] in H.
  - injection H as <- <-. repeat split.
  - destruct (is_simple i) eqn:S.
    + destruct (split_simple l) as [a b] eqn:SL. injection H as <- <-. destruct (IH a b eq_refl) as (E & F & G).
      split; [cbn; congruence|]. split; [cbn; rewrite S; exact F|exact G].
    + injection H as <- <-. split; [reflexivity|]. split; [reflexivity|exact S].
Qed.

Lemma RI_ext : forall A st st' si, RI A st si -> s_ci st' = s_ci st -> s_d st' = s_d st -> s_n st' = s_n st -> RI A st' si.
Proof.
  intros A st st' si (P & IP & N & C) E1 E2 E3. split; [exact P|]. split; [rewrite E3; exact IP|]. split; [rewrite E3; exact N|].
  intros k. rewrite C. unfold cell_i. rewrite E1, E2. reflexivity.
Qed.
Lemma RB_ext : forall A st st' sb, RB A st sb -> s_cb st' = s_cb st -> s_d st' = s_d st -> s_t st' = s_t st ->
  s_n st' = s_n st -> RB A st' sb.
Proof.
  intros A st st' sb (P & IP & N & C & T) E1 E2 E3 E4. split; [exact P|]. split; [rewrite E4; exact IP|]. split; [rewrite E4; exact N|].
  split; [intros k; rewrite C; unfold cell_b; rewrite E1, E2; reflexivity|]. intros t p. rewrite E3. apply T.
Qed.

Lemma ev_eq_sound : forall A a b, ev_eq w a b = true -> map (cev A) a = map (cev A) b.
Proof.
  intros A. induction a as [|[p|] a IH]; intros [|[q|] b] H; cbn [ev_eq] in H; try discriminate; [reflexivity| |].
  - apply andb_prop in H. destruct H as [H1 H2]. cbn [map cev]. unfold ev.
    rewrite (tv_same_sound w Hw p q _ H1), (IH b H2). reflexivity.
  - cbn [map cev]. rewrite (IH b H). reflexivity.
Qed.

(** ** fuel monotonicity of the bytecode model and the reachability relation *)
Definition bterminal (o : outcome bcst) : Prop := match o with Done _ | Stopped _ => True | _ => False end.

Lemma bc_scan_mono : forall f c sh s s', bc_scan f c sh s = Some s' -> forall f', (f <= f')%nat -> bc_scan f' c sh s = Some s'.
Proof.
  induction f as [|f IH]; intros c sh s s' H f' L; [discriminate|]. destruct f' as [|f']; [lia|].
  cbn [bc_scan] in *. destruct (bc_mem s c =? 0); [exact H|]. apply (IH _ _ _ _ H). lia.
Qed.

Lemma bexec_mono : forall f s o, bexec f s = o -> bterminal o -> forall f', (f <= f')%nat -> bexec f' s = o.
Proof.
  induction f as [|f IH]; intros s o H T f' L; [cbn in H; subst o; contradiction|].
  destruct f' as [|f']; [lia|]. cbn [bc_exec] in *.
  destruct (bc_pc s =? len); [exact H|]. destruct (fetch (bc_pc s)) as [i|]; [|exact H].
  assert (L' : (f <= f')%nat) by lia.
  destruct i as [|c sh|sh|dst|src|c off|c off|d a b|d a b|d a b|d a]; cbn [andb] in *.
  - apply (IH _ _ H T _ L').
  - destruct (bc_scan (S f) c sh s) as [s'|] eqn:SC; [|subst o; contradiction].
    rewrite (bc_scan_mono _ _ _ _ _ SC (S f') ltac:(lia)). apply (IH _ _ H T _ L').
  - apply (IH _ _ H T _ L').
  - destruct (do_input e (bc_io s)); [apply (IH _ _ H T _ L')|exact H].
  - destruct (do_output e (bc_io s) _); [apply (IH _ _ H T _ L')|exact H].
  - destruct (bc_mem s c =? 0); apply (IH _ _ H T _ L').
  - destruct (bc_mem s c =? 0); apply (IH _ _ H T _ L').
  - apply (IH _ _ H T _ L').
  - apply (IH _ _ H T _ L').
  - apply (IH _ _ H T _ L').
  - destruct (bc_read w s a). apply (IH _ _ H T _ L').
Qed.

(** [reach s s']: every terminating run from [s'] is a terminating run from [s] *)
Definition reach (s s' : bcst) : Prop :=
  exists n, forall f o, bexec f s' = o -> bterminal o -> bexec (n + f) s = o.
Definition reach_stop (s : bcst) (io : iost) : Prop :=
  exists n s', bexec n s = Stopped s' /\ bc_io s' = io.

Lemma reach_refl : forall s, reach s s.
Proof. intros s. exists 0%nat. intros f o H _. exact H. Qed.
Lemma reach_trans : forall a b c, reach a b -> reach b c -> reach a c.
Proof.
  intros a b c (n1 & H1) (n2 & H2). exists (n1 + n2)%nat. intros f o H T.
  rewrite <- Nat.add_assoc. apply H1; [|exact T]. apply H2; assumption.
Qed.
Lemma reach_steps : forall n s s', (forall f, bexec (n + f) s = bexec f s') -> reach s s'.
Proof. intros n s s' H. exists n. intros f o E _. rewrite H. exact E. Qed.
Lemma reach_then_stop : forall a b io, reach a b -> reach_stop b io -> reach_stop a io.
Proof.
  intros a b io (n1 & H1) (n2 & s' & H2 & I). exists (n1 + n2)%nat, s'. split; [|exact I]. apply H1; [exact H2|exact Logic.I].
Qed.

(** ** re-anchoring *)
Lemma eval_ext_in : forall q g1 g2, (forall v, List.In v (e_variables q) -> g1 v = g2 v) -> eval w q g1 = eval w q g2.
Proof.
  intros q g1 g2 H. unfold eval.
  assert (P : forall p, List.In p q -> eval_part w g1 p = eval_part w g2 p).
  { intros [c vs] IN. unfold eval_part. cbn [fst snd].
    assert (V : forall v, List.In v vs -> g1 v = g2 v).
    { intros v IV. apply H. unfold e_variables. apply in_flat_map. exists (c, vs). split; [exact IN|exact IV]. }
    clear IN. revert c. induction vs as [|v vs IH]; intros c; [reflexivity|]. cbn [fold_left].
    rewrite (V v (or_introl eq_refl)). apply IH. intros v' IV. apply V. right. exact IV. }
  generalize 0. clear H. induction q as [|p q IH]; intros a; [reflexivity|]. cbn [fold_left].
  rewrite (P p (or_introl eq_refl)). apply IH. intros p' IN. apply P. right. exact IN.
Qed.

Definition anchor_of (si : irst) (sb : bcst) : anchor :=
  {| a_ti := ir_tape si; a_tb := bc_tape sb; a_tmps := bc_tmps sb; a_ptr := bc_ptr sb; a_pos := in_pos (bc_io sb) |}.

Lemma ev_red : forall A p, ev A p mod M = ev A p.
Proof. intros. apply eval_red. exact Hw. Qed.

Lemma look_not_in : forall k m, ~ List.In k (map fst m) -> look k m = None.
Proof.
  intros k m. induction m as [|[k' v] m IH]; intros N; [reflexivity|]. cbn [look].
  destruct (k' =? k) eqn:E; [apply Z.eqb_eq in E; subst; exfalso; apply N; left; reflexivity|].
  apply IH. intros I. apply N. right. exact I.
Qed.
Lemma look_in : forall k v m, look k m = Some v -> List.In (k, v) m.
Proof.
  intros k v m. induction m as [|[k' v'] m IH]; intros H; [discriminate|]. cbn [look] in H.
  destruct (k' =? k) eqn:E; [apply Z.eqb_eq in E; injection H as <-; subst; left; reflexivity|right; apply IH; exact H].
Qed.
Lemma memz_not_in : forall k l, ~ List.In k l -> memz k l = false.
Proof.
  intros k l. induction l as [|x l IH]; intros N; [reflexivity|]. cbn [memz].
  destruct (x =? k) eqn:E; [apply Z.eqb_eq in E; subst; exfalso; apply N; left; reflexivity|].
  apply IH. intros I. apply N. right. exact I.
Qed.
Lemma memz_in : forall k l, memz k l = true -> List.In k l.
Proof.
  intros k l. induction l as [|x l IH]; intros H; [discriminate|]. cbn [memz] in H.
  destruct (x =? k) eqn:E; [apply Z.eqb_eq in E; left; exact E|right; apply IH; exact H].
Qed.

(** cells outside [keys st] are untouched common cells *)
Lemma not_key_cells : forall st k, ~ List.In k (TV.keys st) ->
  cell_i st k = e_var (acell k) /\ cell_b st k = e_var (acell k).
Proof.
  intros st k N. unfold TV.keys in N. rewrite !in_app_iff in N. unfold cell_i, cell_b.
  rewrite (look_not_in k (s_ci st)) by tauto. rewrite (look_not_in k (s_cb st)) by tauto.
  rewrite (memz_not_in k (s_d st)) by tauto. split; reflexivity.
Qed.

Lemma tv_same_ev : forall A a b, tv_same w a b = true -> ev A a = ev A b.
Proof. intros A a b H. apply (tv_same_sound w Hw). exact H. Qed.

Lemma agree_sound : forall A st k, agree w st k = true -> ev A (cell_i st k) = ev A (cell_b st k).
Proof. intros A st k H. apply (tv_same_sound w Hw). exact H. Qed.

(** both tapes hold the same value in a cell that is not a key or on which the sides agree *)
Lemma same_value : forall A st si sb k, Rel A st si sb -> (agree w st k = true \/ ~ List.In k (TV.keys st)) ->
  tget (ir_tape si) (a_ptr A + k) = tget (bc_tape sb) (a_ptr A + k).
Proof.
  intros A st si sb k ((_ & _ & _ & CI) & (_ & _ & _ & CB & _) & _) [H|H]; rewrite CI, CB.
  - apply agree_sound. exact H.
  - destruct (not_key_cells st k H) as [E1 E2]. rewrite E1, E2. reflexivity.
Qed.

Lemma subst_sound : forall A st si sb q, Rel A st si sb -> subst_ok w st q = true ->
  ev A (subst_st w st q) = ev (anchor_of si sb) q.
Proof.
  intros A st si sb q R OK. unfold subst_st, ev. rewrite (psubst_sound w Hw). apply eval_ext_in.
  intros a IN. unfold subst_ok in OK. rewrite forallb_forall in OK. specialize (OK a IN).
  destruct R as ((PI & _ & _ & CI) & (PB & _ & _ & CB & TB) & _).
  unfold atom_ok in OK. unfold atom_val, rho. cbn [anchor_of a_ti a_tb a_tmps a_ptr a_pos].
  destruct (a mod 5 =? 0) eqn:E0.
  - rewrite PB. symmetry. apply CB.
  - destruct (a mod 5 =? 1) eqn:E1; [rewrite PB; symmetry; apply CI|].
    destruct (a mod 5 =? 2) eqn:E2; [rewrite PB; symmetry; apply CB|].
    destruct (a mod 5 =? 3) eqn:E3; [|discriminate].
    destruct (look (a / 5) (s_t st)) as [p|] eqn:L; [|discriminate]. symmetry. apply (TB _ _ L).
Qed.

Lemma nonzero_in_sound : forall A st si sb p, Rel A st si sb -> nonzero_in w st p = true -> ev A p <> 0.
Proof.
  intros A st si sb p R H. unfold nonzero_in in H. apply orb_prop in H. destruct H as [H|H].
  - unfold is_nz_const in H. destruct p as [|[c [|v vs]] [|p2 p]]; try discriminate.
    apply negb_true_iff, Z.eqb_neq in H. unfold ev, eval. cbn [fold_left eval_part fst snd]. unfold wadd.
    rewrite Z.add_0_l. exact H.
  - apply existsb_exists in H. destruct H as (q & IN & S). unfold ev. rewrite (tv_same_sound w Hw p q _ S).
    destruct R as (_ & _ & _ & _ & NZ). apply NZ. exact IN.
Qed.

Lemma entails_sound : forall A st si sb f, Rel A st si sb -> entails w st f = true ->
  Rel (anchor_of si sb) (st_of_facts f) si sb.
Proof.
  intros A st si sb f R H. unfold entails in H.
  apply andb_prop in H. destruct H as [H HNZ]. apply andb_prop in H. destruct H as [H HT].
  apply andb_prop in H. destruct H as [HD HC].
  rewrite forallb_forall in HD, HC, HT, HNZ.
  pose proof R as ((PI & IPI & NI & CI) & (PB & IPB & NB & CB & TB) & IO & AG & NZ).
  set (A' := anchor_of si sb).
  (* every cell that is not declared differing holds the same value on both tapes *)
  assert (SAME : forall k, memz k (f_d f) = false -> tget (ir_tape si) (a_ptr A + k) = tget (bc_tape sb) (a_ptr A + k)).
  { intros k ND. apply (same_value A st si sb k R).
    destruct (in_dec Z.eq_dec k (TV.keys st)) as [IK|NK]; [|right; exact NK]. left.
    specialize (HC k ltac:(apply in_or_app; left; exact IK)). rewrite ND in HC. cbn [orb] in HC.
    apply andb_prop in HC. destruct HC as [HC _]. exact HC. }
  (* a declared cell fact gives the value of the cell *)
  assert (FACT : forall k q, look k (f_c f) = Some q -> memz k (f_d f) = false /\ ev A (cell_b st k) = ev A' q
                              /\ agree w st k = true).
  { intros k q L. assert (ND : memz k (f_d f) = false).
    { destruct (memz k (f_d f)) eqn:MD; [|reflexivity]. specialize (HD k (memz_in _ _ MD)). rewrite L in HD. discriminate. }
    split; [exact ND|].
    specialize (HC k ltac:(apply in_or_app; right; apply in_map_iff; exists (k, q); split; [reflexivity|apply look_in; exact L])).
    rewrite ND, L in HC. cbn [orb] in HC. apply andb_prop in HC. destruct HC as [AGk HC]. apply andb_prop in HC. destruct HC as [OK SM].
    split; [|exact AGk]. rewrite (tv_same_ev A _ _ SM). apply (subst_sound A st si sb q R OK). }
  assert (PAB : a_ptr A' = a_ptr A) by (cbn; exact PB).
  split; [|split; [|split; [exact IO|split]]].
  - split; [cbn; congruence|]. split; [cbn; rewrite IO; lia|]. split; [cbn; lia|].
    intros k. rewrite PAB. unfold cell_i. cbn [st_of_facts s_ci s_d].
    destruct (look k (f_c f)) as [q|] eqn:L.
    + destruct (FACT k q L) as (ND & EV & AGk). rewrite <- EV, <- (agree_sound A st k AGk). apply CI.
    + destruct (memz k (f_d f)) eqn:MD.
      * rewrite ev_var, rho_axi. cbn [A' anchor_of a_ti a_ptr]. rewrite PB, CI. symmetry. apply ev_red.
      * rewrite ev_var, rho_acell. cbn [A' anchor_of a_tb a_ptr]. rewrite PB, <- (SAME k MD), CI. symmetry. apply ev_red.
  - split; [cbn; reflexivity|]. split; [cbn; lia|]. split; [cbn; lia|]. split.
    + intros k. rewrite PAB. unfold cell_b. cbn [st_of_facts s_cb s_d].
      destruct (look k (f_c f)) as [q|] eqn:L.
      * destruct (FACT k q L) as (ND & EV & AGk). rewrite <- EV. apply CB.
      * destruct (memz k (f_d f)) eqn:MD.
        -- rewrite ev_var, rho_axb. cbn [A' anchor_of a_tb a_ptr]. rewrite PB, CB. symmetry. apply ev_red.
        -- rewrite ev_var, rho_acell. cbn [A' anchor_of a_tb a_ptr]. rewrite PB, CB. symmetry. apply ev_red.
    + intros t q L. cbn [st_of_facts s_t] in L. specialize (HT (t, q) (look_in _ _ _ L)). cbn [fst snd] in HT.
      destruct (look t (s_t st)) as [p|] eqn:LT; [|discriminate]. apply andb_prop in HT. destruct HT as [OK SM].
      rewrite (TB t p LT), (tv_same_ev A _ _ SM). apply (subst_sound A st si sb q R OK).
  - intros k ND. cbn [st_of_facts s_d] in ND. cbn [A' anchor_of a_ti a_tb a_ptr]. rewrite PB, (SAME k ND). reflexivity.
  - intros q IN. cbn [st_of_facts s_nz] in IN. specialize (HNZ q IN). apply andb_prop in HNZ. destruct HNZ as [OK NZq].
    subst A'. rewrite <- (subst_sound A st si sb q R OK). apply (nonzero_in_sound A st si sb _ R NZq).
Qed.

(** * TVProofs.v — soundness of the certificate checker of [TV.v]: if [tv_check] accepts an IR
    program, a bytecode program and a certificate, then every terminating run of the IR interpreter
    model is matched by a run of the bytecode model with the same I/O trace (property C02, the
    translation [bc::CodeGen::translate]; the JIT runs the same bytecode). *)
From Coq Require Import ZArith List Bool Lia Zdiv Permutation Morphisms Setoid.
From HPBF Require Import Cell IO Expr BC IR X86 TV CellProofs ExprProofs BCWfProofs BCProofs Level0Proofs Level0Back X86Proofs.
Import ListNotations.
Open Scope Z_scope.
#[local] Existing Instances eqm_setoid Zplus_eqm Zminus_eqm Zmult_eqm Zopp_eqm.
Local Arguments Z.mul : simpl never.
Local Arguments Z.add : simpl never.
Local Arguments Z.sub : simpl never.
Local Arguments Z.pow : simpl never.
Local Arguments Z.modulo : simpl never.
Local Arguments Z.div : simpl never.

Section Poly.
Variable w : Z.
Hypothesis Hw : 0 <= w.
Let M := 2 ^ w.
Notation "a == b" := (eqm M a b) (at level 70).

Lemma Mpos : 0 < M. Proof. apply Z.pow_pos_nonneg; lia. Qed.

Lemma eval_ext : forall e g1 g2, (forall v, g1 v = g2 v) -> eval w e g1 = eval w e g2.
Proof.
  intros e g1 g2 H. unfold eval.
  assert (P : forall p, eval_part w g1 p = eval_part w g2 p).
  { intros [c vs]. unfold eval_part. cbn [fst snd]. revert c. induction vs as [|v vs IH]; intros c; [reflexivity|].
    cbn [fold_left]. rewrite H. apply IH. }
  generalize 0. induction e as [|p e IH]; intros a; [reflexivity|]. cbn [fold_left]. rewrite P. apply IH.
Qed.

(** [eval] is reduced modulo 2^w *)
Lemma eval_red : forall e g, eval w e g mod M = eval w e g.
Proof.
  intros e g. unfold eval.
  assert (G : forall l a, a mod M = a -> fold_left (fun val p => wadd w val (eval_part w g p)) l a mod M
                                       = fold_left (fun val p => wadd w val (eval_part w g p)) l a).
  { induction l as [|p l IH]; intros a A; [exact A|]. cbn [fold_left]. apply IH. unfold wadd. fold M.
    apply Z.mod_mod. pose proof Mpos; lia. }
  apply G. apply Z.mod_0_l. pose proof Mpos; lia.
Qed.

Lemma eqm_exact : forall a b, a == b -> a mod M = a -> b mod M = b -> a = b.
Proof. intros a b H A B. unfold eqm in H. congruence. Qed.

Lemma eval_eq : forall a b g, eval w a g == eval w b g -> eval w a g = eval w b g.
Proof. intros a b g H. apply (eqm_exact _ _ H); apply eval_red. Qed.

(** ** the canonical form *)
Lemma pcanon_den : forall rho e, den rho (pcanon w e) == den rho e.
Proof.
  intros rho e. unfold pcanon. rewrite amap_parts_den.
  assert (G : forall l m, amap_den rho (fold_left (fun m p => acc_add w (sort_z (snd p)) (fst p) m) l m)
                          == amap_den rho m + den rho l).
  { induction l as [|p l IH]; intros m; cbn [fold_left].
    - unfold den. cbn [fold_right]. replace (amap_den rho m + 0) with (amap_den rho m) by ring. reflexivity.
    - rewrite IH, (acc_add_den w Hw). rewrite den_cons. unfold dpart.
      rewrite (mon_perm rho _ _ (sort_z_perm (snd p))).
      replace (amap_den rho m + fst p * mon rho (snd p) + den rho l)
        with (amap_den rho m + (fst p * mon rho (snd p) + den rho l)) by ring. reflexivity. }
  rewrite G. cbn [amap_den fold_right]. replace (0 + den rho e) with (den rho e) by ring. reflexivity.
Qed.

Lemma tv_same_sound : forall a b g, tv_same w a b = true -> eval w a g = eval w b g.
Proof.
  intros a b g H. unfold tv_same in H. apply part_eqb_eq in H. apply eval_eq.
  rewrite !(eval_den w Hw). rewrite <- (pcanon_den g a), <- (pcanon_den g b), H. reflexivity.
Qed.

(** ** substitution *)
Lemma psubst_sound : forall f e g,
  eval w (psubst w f e) g = eval w e (fun v => eval w (f v) g).
Proof.
  intros f e g. apply (eqm_exact _ _); [|apply eval_red|apply eval_red].
  rewrite (eval_den w Hw _ e).
  induction e as [|[c vs] e IH]; [reflexivity|].
  cbn [psubst fold_right] in *. rewrite (eval_add w Hw). fold (psubst w f e). rewrite IH, den_cons.
  apply Zplus_eqm; [|reflexivity]. unfold dpart. cbn [fst snd].
  induction vs as [|v vs IV]; cbn [fold_right mon].
  - rewrite (eval_val w Hw). replace (c * 1) with c by ring. reflexivity.
  - rewrite (eval_mul w Hw), IV. ring_simplify. reflexivity.
Qed.
End Poly.

(** ** anchors, valuations and the simulation relation *)
Section Sim.
Variable w : Z.
Hypothesis Hw : 0 <= w.
Variable e : env.
Notation M := (2 ^ w).
Lemma Mp : 0 < M. Proof. apply Z.pow_pos_nonneg; lia. Qed.

Record anchor := { a_ti : tmap; a_tb : tmap; a_tmps : tmap; a_ptr : Z; a_pos : nat }.

Definition rho (A : anchor) (a : Z) : Z :=
  let m := a mod 5 in
  let k := a / 5 in
  if m =? 0 then tget (a_tb A) (a_ptr A + k)
  else if m =? 1 then tget (a_ti A) (a_ptr A + k)
  else if m =? 2 then tget (a_tb A) (a_ptr A + k)
  else if m =? 3 then tget (a_tmps A) k
  else from_u8 w (nth (a_pos A + Z.to_nat k) (input e) 0).

Lemma atom_mod : forall k r, 0 <= r < 5 -> (5 * k + r) mod 5 = r /\ (5 * k + r) / 5 = k.
Proof.
  intros k r R. split.
  - rewrite Z.add_comm, Z.mul_comm, Z_mod_plus_full. apply Z.mod_small. exact R.
  - rewrite Z.add_comm, Z.mul_comm, Z.div_add by lia. rewrite Z.div_small by exact R. lia.
Qed.

Lemma rho_acell : forall A k, rho A (acell k) = tget (a_tb A) (a_ptr A + k).
Proof.
  intros A k. unfold rho, acell. destruct (atom_mod k 0 ltac:(lia)) as [E1 E2].
  replace (5 * k) with (5 * k + 0) by lia. rewrite E1, E2. reflexivity.
Qed.
Lemma rho_axi : forall A k, rho A (axi k) = tget (a_ti A) (a_ptr A + k).
Proof. intros A k. unfold rho, axi. destruct (atom_mod k 1 ltac:(lia)) as [E1 E2]. rewrite E1, E2. reflexivity. Qed.
Lemma rho_axb : forall A k, rho A (axb k) = tget (a_tb A) (a_ptr A + k).
Proof. intros A k. unfold rho, axb. destruct (atom_mod k 2 ltac:(lia)) as [E1 E2]. rewrite E1, E2. reflexivity. Qed.
Lemma rho_atmp : forall A t, rho A (atmp t) = tget (a_tmps A) t.
Proof. intros A t. unfold rho, atmp. destruct (atom_mod t 3 ltac:(lia)) as [E1 E2]. rewrite E1, E2. reflexivity. Qed.
Lemma rho_ainp : forall A j, rho A (ainp j) = from_u8 w (nth (a_pos A + Z.to_nat j) (input e) 0).
Proof. intros A j. unfold rho, ainp. destruct (atom_mod j 4 ltac:(lia)) as [E1 E2]. rewrite E1, E2. reflexivity. Qed.

Definition ev (A : anchor) (p : expr) : Z := eval w p (rho A).

Lemma ev_var : forall A a, ev A (e_var a) = rho A a mod M.
Proof.
  intros A a. unfold ev. apply (eqm_exact w).
  - rewrite (eval_var w Hw). unfold eqm. rewrite Z.mod_mod by (pose proof Mp; lia). reflexivity.
  - apply eval_red. exact Hw.
  - apply Z.mod_mod. pose proof Mp. lia.
Qed.

Definition RI (A : anchor) (st : sst) (si : irst) : Prop :=
  ir_ptr si = a_ptr A /\ in_pos (ir_io si) = (a_pos A + Z.to_nat (s_n st))%nat /\ 0 <= s_n st /\
  forall k, tget (ir_tape si) (a_ptr A + k) = ev A (cell_i st k).

Definition RB (A : anchor) (st : sst) (sb : bcst) : Prop :=
  bc_ptr sb = a_ptr A /\ in_pos (bc_io sb) = (a_pos A + Z.to_nat (s_n st))%nat /\ 0 <= s_n st /\
  (forall k, tget (bc_tape sb) (a_ptr A + k) = ev A (cell_b st k)) /\
  (forall t p, look t (s_t st) = Some p -> tget (bc_tmps sb) t = ev A p).

Definition Rel (A : anchor) (st : sst) (si : irst) (sb : bcst) : Prop :=
  RI A st si /\ RB A st sb /\ ir_io si = bc_io sb /\
  (forall k, memz k (s_d st) = false -> tget (a_ti A) (a_ptr A + k) mod M = tget (a_tb A) (a_ptr A + k) mod M) /\
  (forall p, List.In p (s_nz st) -> ev A p <> 0).

(** ** concrete event lists *)
Fixpoint io_run (evs : list (option Z)) (io : iost) : iost * bool :=
  match evs with
  | [] => (io, true)
  | Some b :: r => match do_output e io b with IoOk _ io' => io_run r io' | IoFail io' => (io', false) end
  | None :: r => match do_input e io with IoOk _ io' => io_run r io' | IoFail io' => (io', false) end
  end.

Definition cev (A : anchor) (s : sev) : option Z :=
  match s with SOut p => Some (into_u8 w (ev A p)) | SIn => None end.

Lemma io_run_app : forall a b io,
  io_run (a ++ b) io = match io_run a io with (io', true) => io_run b io' | (io', false) => (io', false) end.
Proof.
  induction a as [|[x|] a IH]; intros b io; cbn [app io_run]; [reflexivity| |].
  - destruct (do_output e io x); [apply IH|reflexivity].
  - destruct (do_input e io); [apply IH|reflexivity].
Qed.

(** ** maps *)
Lemma look_cons : forall k k' v m, look k ((k', v) :: m) = if k' =? k then Some v else look k m.
Proof. reflexivity. Qed.

(** the value read by a successful input request *)
Lemma input_value : forall io b io', do_input e io = IoOk b io' ->
  b = nth (in_pos io) (input e) 0 /\ in_pos io' = S (in_pos io) /\ out_cnt io' = out_cnt io.
Proof.
  intros io b io' H. unfold do_input in H. destruct (in_absent e); [discriminate|].
  destruct (opt_nat_eqb (in_fail_at e) (in_pos io)); [discriminate|].
  destruct (nth_error (input e) (in_pos io)) as [x|] eqn:N; injection H as <- <-; cbn; (split; [|split; reflexivity]).
  - symmetry. apply nth_error_nth. exact N.
  - symmetry. apply nth_overflow. apply nth_error_None. exact N.
Qed.
Lemma output_pos : forall io b u io', do_output e io b = IoOk u io' -> in_pos io' = in_pos io.
Proof.
  intros io b u io' H. unfold do_output in H. destruct (negb (out_present e)); [injection H as _ <-; reflexivity|].
  destruct (opt_nat_eqb (out_fail_at e) (out_cnt io)); [discriminate|]. injection H as _ <-. reflexivity.
Qed.

(** ** IR side: symbolic execution of the straight-line part *)
Lemma sym_ir_step_frame : forall st i st' evs, sym_ir_step w st i = (st', evs) ->
  s_cb st' = s_cb st /\ s_t st' = s_t st /\ s_d st' = s_d st /\ s_nz st' = s_nz st.
Proof.
  intros st i st' evs H. destruct i; cbn [sym_ir_step] in H; injection H as <- _; repeat split; reflexivity.
Qed.
Lemma sym_ir_frame : forall l st st' evs, sym_ir w l st = (st', evs) ->
  s_cb st' = s_cb st /\ s_t st' = s_t st /\ s_d st' = s_d st /\ s_nz st' = s_nz st.
Proof.
  induction l as [|i l IH]; intros st st' evs H; cbn [sym_ir] in H.
  - injection H as <- _. repeat split; reflexivity.
  - destruct (sym_ir_step w st i) as [st1 e1] eqn:S1. destruct (sym_ir w l st1) as [st2 e2] eqn:S2.
    injection H as <- _. destruct (sym_ir_step_frame _ _ _ _ S1) as (A1 & A2 & A3 & A4).
    destruct (IH _ _ _ S2) as (B1 & B2 & B3 & B4). repeat split; congruence.
Qed.

Definition cellof (d : list Z) (x : Z -> Z) (m : amap) (k : Z) : expr :=
  match look k m with Some p => p | None => if memz k d then e_var (x k) else e_var (acell k) end.

Lemma cell_i_of : forall st k, cell_i st k = cellof (s_d st) axi (s_ci st) k.
Proof. reflexivity. Qed.
Lemma cell_b_of : forall st k, cell_b st k = cellof (s_d st) axb (s_cb st) k.
Proof. reflexivity. Qed.

(** sequential writes of evaluated polynomials *)
Lemma write_list : forall A d x ptr (vals : list (Z * expr)) m tape,
  (forall k, tget tape (ptr + k) = ev A (cellof d x m k)) ->
  forall k, tget (fold_left (fun t kv => tset t (ptr + fst kv) (ev A (snd kv))) vals tape) (ptr + k)
            = ev A (cellof d x (fold_left (fun m kv => kv :: m) vals m) k).
Proof.
  intros A d x ptr vals. induction vals as [|[k0 p0] vals IH]; intros m tape H k; cbn [fold_left]; [apply H|].
  apply IH. intros k'. rewrite MachineProofs.tget_tset. unfold cellof. cbn [fst snd]. rewrite look_cons.
  destruct (k0 =? k') eqn:E.
  - apply Z.eqb_eq in E. subst k'. rewrite Z.eqb_refl. reflexivity.
  - destruct (ptr + k0 =? ptr + k') eqn:E2; [apply Z.eqb_eq in E2; apply Z.eqb_neq in E; lia|]. apply H.
Qed.

Lemma ir_calc_fold : forall (vals : list (Z * Z)) s,
  ir_tape (fold_left (fun s vv => ir_write s (fst vv) (snd vv)) vals s)
  = fold_left (fun t vv => tset t (ir_ptr s + fst vv) (snd vv)) vals (ir_tape s)
  /\ ir_ptr (fold_left (fun s vv => ir_write s (fst vv) (snd vv)) vals s) = ir_ptr s
  /\ ir_io (fold_left (fun s vv => ir_write s (fst vv) (snd vv)) vals s) = ir_io s.
Proof.
  induction vals as [|[k v] vals IH]; intros s; cbn [fold_left]; [repeat split; reflexivity|].
  destruct (IH (ir_write s k v)) as (E1 & E2 & E3). cbn [fst snd]. rewrite E1, E2, E3. cbn. repeat split; reflexivity.
Qed.

Lemma fold_left_map_l : forall (A B C : Type) (f : A -> B -> A) (g : C -> B) l a,
  fold_left f (map g l) a = fold_left (fun a x => f a (g x)) l a.
Proof. intros A B C f g l. induction l as [|x l IH]; intros a; [reflexivity|]. cbn. apply IH. Qed.

Lemma RI_read : forall A st si k, RI A st si -> ir_read si k = ev A (cell_i st k).
Proof. intros A st si k (P & _ & _ & C). unfold ir_read. rewrite P. apply C. Qed.

Lemma from_u8_ainp : forall A n io b io', 0 <= n -> in_pos io = (a_pos A + Z.to_nat n)%nat ->
  do_input e io = IoOk b io' -> from_u8 w b = ev A (e_var (ainp n)).
Proof.
  intros A n io b io' N P H. destruct (input_value _ _ _ H) as (B & _ & _).
  rewrite ev_var, rho_ainp. unfold from_u8, from_u64. rewrite Z.mod_mod by (pose proof Mp; lia).
  rewrite B, P. reflexivity.
Qed.

Lemma sym_ir_step_sound : forall A st si i st' evs, is_simple i = true -> RI A st si ->
  sym_ir_step w st i = (st', evs) -> forall rest,
  match io_run (map (cev A) evs) (ir_io si) with
  | (io', true) => exists si', (forall f, ir_exec w e false (S f) (i :: rest) si = ir_exec w e false f rest si')
                               /\ ir_io si' = io' /\ RI A st' si'
  | (io', false) => exists si', (forall f, ir_exec w e false (S f) (i :: rest) si = Stopped si') /\ ir_io si' = io'
  end.
Proof.
  intros A st si i st' evs SI R H rest. pose proof R as (P & IP & N & CE).
  destruct i as [src|dst|calcs|c sh b o|c sh b]; try discriminate; cbn [sym_ir_step] in H; injection H as <- <-;
    cbn [map cev io_run].
  - pose proof (RI_read A st si src R) as RD.
    destruct (do_output e (ir_io si) (into_u8 w (ev A (cell_i st src)))) as [u io'|io'] eqn:O.
    + exists (ir_set_io si io'). split; [intros f; cbn [ir_exec]; rewrite RD, O; reflexivity|]. split; [reflexivity|].
      split; [exact P|]. split; [cbn; rewrite (output_pos _ _ _ _ O); exact IP|]. split; [exact N|exact CE].
    + exists (ir_set_io si io'). split; [intros f; cbn [ir_exec]; rewrite RD, O; reflexivity|reflexivity].
  - destruct (do_input e (ir_io si)) as [b io'|io'] eqn:I.
    + exists (ir_write (ir_set_io si io') dst (from_u8 w b)). split; [intros f; cbn [ir_exec]; rewrite I; reflexivity|]. split; [reflexivity|].
      destruct (input_value _ _ _ I) as (_ & IP' & _).
      split; [exact P|]. split; [cbn; rewrite IP', IP, Z2Nat.inj_add by lia; cbn; lia|]. split; [cbn; lia|].
      intros k. cbn [ir_write ir_set_io ir_tape ir_ptr]. rewrite MachineProofs.tget_tset.
      unfold cell_i. cbn [set_n set_ci s_ci s_d]. rewrite look_cons. rewrite P.
      destruct (dst =? k) eqn:E.
      * apply Z.eqb_eq in E. subst k. rewrite Z.eqb_refl. apply (from_u8_ainp A (s_n st) _ _ _ N IP I).
      * destruct (a_ptr A + dst =? a_ptr A + k) eqn:E2; [apply Z.eqb_eq in E2; apply Z.eqb_neq in E; lia|]. apply CE.
    + exists (ir_set_io si io'). split; [intros f; cbn [ir_exec]; rewrite I; reflexivity|reflexivity].
  - exists (ir_calc w calcs si). split; [intros f; reflexivity|].
    unfold ir_calc. destruct (ir_calc_fold (map (fun ce => (fst ce, eval w (snd ce) (ir_read si))) calcs) si) as (E1 & E2 & E3).
    split; [exact E3|]. split; [rewrite E2; exact P|]. split; [rewrite E3; exact IP|]. split; [exact N|].
    intros k. rewrite E1. rewrite cell_i_of. cbn [set_ci s_ci s_d].
    rewrite fold_left_map_l. rewrite (fold_left_map_l _ _ _ (fun m kv => kv :: m)).
    rewrite P.
    pose proof (write_list A (s_d st) axi (a_ptr A)
                  (map (fun ce => (fst ce, psubst w (cell_i st) (snd ce))) calcs) (s_ci st) (ir_tape si)) as WL.
    rewrite !fold_left_map_l in WL. cbn [fst snd] in WL.
    rewrite <- WL; [|intros k'; rewrite <- cell_i_of; apply CE].
    f_equal. clear WL E1 E2 E3 SI.
    generalize (ir_tape si). induction calcs as [|[v ex] calcs IH]; intros t; [reflexivity|].
    cbn [fold_left fst snd]. rewrite IH. f_equal. f_equal.
    unfold ev. rewrite (psubst_sound w Hw). apply eval_ext. intros x. apply (RI_read A st si x R).
Qed.

Lemma sym_ir_sound : forall pre, forallb is_simple pre = true -> forall A st si st' evs rest, RI A st si ->
  sym_ir w pre st = (st', evs) ->
  match io_run (map (cev A) evs) (ir_io si) with
  | (io', true) => exists si', (forall f, ir_exec w e false (length pre + f) (pre ++ rest) si = ir_exec w e false f rest si')
                               /\ ir_io si' = io' /\ RI A st' si'
  | (io', false) => exists si', (forall f, ir_exec w e false (length pre + f) (pre ++ rest) si = Stopped si') /\ ir_io si' = io'
  end.
Proof.
  induction pre as [|i pre IH]; intros SP A st si st' evs rest R H; cbn [sym_ir] in H.
  - injection H as <- <-. cbn. exists si. split; [reflexivity|]. split; [reflexivity|exact R].
  - cbn [forallb] in SP. apply andb_prop in SP. destruct SP as [Si SP].
    destruct (sym_ir_step w st i) as [st1 e1] eqn:S1. destruct (sym_ir w pre st1) as [st2 e2] eqn:S2.
    injection H as <- <-. rewrite map_app, io_run_app.
    pose proof (sym_ir_step_sound A st si i st1 e1 Si R S1 (pre ++ rest)) as ST.
    destruct (io_run (map (cev A) e1) (ir_io si)) as [io1 [|]].
    + destruct ST as (si1 & E1 & I1 & R1). specialize (IH SP A st1 si1 st2 e2 rest R1 S2). rewrite I1 in IH.
      destruct (io_run (map (cev A) e2) io1) as [io2 [|]].
      * destruct IH as (si2 & E2 & I2 & R2). exists si2. split; [intros f; cbn [length app plus]; rewrite E1; apply E2|]. split; assumption.
      * destruct IH as (si2 & E2 & I2). exists si2. split; [intros f; cbn [length app plus]; rewrite E1; apply E2|exact I2].
    + destruct ST as (si1 & E1 & I1). exists si1. split; [intros f; cbn [length app plus]; apply E1|exact I1].
Qed.

(** ** bytecode side *)
Lemma wadd_ev : forall A p q, wadd w (ev A p) (ev A q) = ev A (e_add w p q).
Proof.
  intros A p q. apply (eqm_exact w).
  - unfold ev. rewrite (eval_add w Hw). unfold wadd, eqm. rewrite Z.mod_mod by (pose proof Mp; lia). reflexivity.
  - unfold wadd. apply Z.mod_mod. pose proof Mp; lia.
  - apply eval_red. exact Hw.
Qed.
Lemma wsub_ev : forall A p q, wadd w (ev A p) (wneg w (ev A q)) = ev A (e_add w p (e_neg w q)).
Proof.
  intros A p q. apply (eqm_exact w).
  - unfold ev. rewrite (eval_add w Hw), (eval_neg w Hw). unfold wadd, wneg, eqm.
    rewrite Z.mod_mod by (pose proof Mp; lia). rewrite Zplus_mod_idemp_r. reflexivity.
  - unfold wadd. apply Z.mod_mod. pose proof Mp; lia.
  - apply eval_red. exact Hw.
Qed.
Lemma wmul_ev : forall A p q, wmul w (ev A p) (ev A q) = ev A (e_mul w p q).
Proof.
  intros A p q. apply (eqm_exact w).
  - unfold ev. rewrite (eval_mul w Hw). unfold wmul, eqm. rewrite Z.mod_mod by (pose proof Mp; lia). reflexivity.
  - unfold wmul. apply Z.mod_mod. pose proof Mp; lia.
  - apply eval_red. exact Hw.
Qed.
Lemma ev_nil : forall A, ev A [] = 0.
Proof. reflexivity. Qed.
Lemma ev_imm : forall A c, imm_ok w c = true -> ev A (e_val c) = c.
Proof.
  intros A c H. unfold imm_ok in H. apply andb_prop in H. destruct H as [H1 H2].
  apply Z.leb_le in H1. apply Z.ltb_lt in H2. apply (eqm_exact w).
  - unfold ev. rewrite (eval_val w Hw). reflexivity.
  - apply eval_red. exact Hw.
  - apply Z.mod_small. lia.
Qed.

(** the part of the bytecode state the relation looks at *)
Definition bsame (s s' : bcst) : Prop :=
  bc_ptr s' = bc_ptr s /\ bc_io s' = bc_io s /\ bc_pc s' = bc_pc s.

Lemma RB_set_mem : forall A st sb k p v, RB A st sb -> v = ev A p ->
  RB A (set_cb st ((k, p) :: s_cb st)) (bc_set_mem sb k v).
Proof.
  intros A st sb k p v (P & IP & N & C & T) V. split; [exact P|]. split; [exact IP|]. split; [exact N|]. split.
  - intros k'. cbn [bc_set_mem bc_tape]. rewrite MachineProofs.tget_tset. unfold cell_b. cbn [set_cb s_cb s_d].
    rewrite look_cons, P. destruct (k =? k') eqn:E.
    + apply Z.eqb_eq in E. subst k'. rewrite Z.eqb_refl. exact V.
    + destruct (a_ptr A + k =? a_ptr A + k') eqn:E2; [apply Z.eqb_eq in E2; apply Z.eqb_neq in E; lia|]. apply C.
  - exact T.
Qed.

Lemma RB_set_tmp : forall A st sb t p v, RB A st sb -> v = ev A p ->
  RB A (set_t st ((t, p) :: s_t st)) (bc_set_tmp sb t v).
Proof.
  intros A st sb t p v (P & IP & N & C & T) V. split; [exact P|]. split; [exact IP|]. split; [exact N|]. split.
  - exact C.
  - intros t' p'. cbn [set_t s_t]. rewrite look_cons. cbn [bc_set_tmp bc_tmps]. rewrite MachineProofs.tget_tset.
    destruct (t =? t') eqn:E; [intros Q; injection Q as <-; exact V|apply T].
Qed.

Ltac bsame_refl := (split; [reflexivity|split; reflexivity]).
Ltac frame4 := (split; [reflexivity|split; [reflexivity|split; reflexivity]]).

Lemma sym_read_sound : forall A st sb l p st1, RB A st sb -> sym_read w st l = Some (p, st1) ->
  fst (bc_read w sb l) = ev A p /\ RB A st1 (snd (bc_read w sb l)) /\ bsame sb (snd (bc_read w sb l))
  /\ s_ci st1 = s_ci st /\ s_d st1 = s_d st /\ s_nz st1 = s_nz st /\ s_n st1 = s_n st.
Proof.
  intros A st sb l p st1 R H. pose proof R as (P & IP & N & C & T).
  destruct l as [k|k|t|c]; cbn [sym_read bc_read fst snd] in *.
  - injection H as <- <-. unfold bc_mem. rewrite P. split; [apply C|]. split; [exact R|]. split; [bsame_refl|frame4].
  - injection H as <- <-. unfold bc_mem. rewrite P. split; [apply C|].
    split; [apply RB_set_mem; [exact R|reflexivity]|]. split; [bsame_refl|frame4].
  - destruct (look t (s_t st)) as [q|] eqn:L; [|discriminate]. injection H as <- <-.
    split; [apply (T t q L)|]. split; [exact R|]. split; [bsame_refl|frame4].
  - destruct (imm_ok w c) eqn:I; [|discriminate]. injection H as <- <-.
    split; [symmetry; apply ev_imm; exact I|]. split; [exact R|]. split; [bsame_refl|frame4].
Qed.

Lemma sym_write_sound : forall A st sb l p v, RB A st sb -> v = ev A p ->
  RB A (sym_write st l p) (bc_write sb l v) /\ bsame sb (bc_write sb l v)
  /\ s_ci (sym_write st l p) = s_ci st /\ s_d (sym_write st l p) = s_d st
  /\ s_nz (sym_write st l p) = s_nz st /\ s_n (sym_write st l p) = s_n st.
Proof.
  intros A st sb l p v R V. destruct l as [k|k|t|c]; cbn [sym_write bc_write].
  - split; [apply RB_set_mem; assumption|]. split; [bsame_refl|frame4].
  - split; [apply RB_set_mem; assumption|]. split; [bsame_refl|frame4].
  - split; [apply RB_set_tmp; assumption|]. split; [bsame_refl|frame4].
  - split; [exact R|]. split; [bsame_refl|frame4].
Qed.

Lemma bsame_trans : forall a b c, bsame a b -> bsame b c -> bsame a c.
Proof. intros a b c (A1 & A2 & A3) (B1 & B2 & B3). repeat split; congruence. Qed.

Lemma sym_binop_sound : forall A (op : Z -> Z -> Z) (f : expr -> expr -> expr) st sb d a b st',
  (forall p q, op (ev A p) (ev A q) = ev A (f p q)) ->
  RB A st sb -> sym_binop w f st d a b = Some st' ->
  RB A st' (bc_binop w op sb d a b) /\ bsame sb (bc_binop w op sb d a b)
  /\ s_ci st' = s_ci st /\ s_d st' = s_d st /\ s_nz st' = s_nz st /\ s_n st' = s_n st.
Proof.
  intros A op f st sb d a b st' OP R H. unfold sym_binop, bc_binop in *.
  destruct (loc_eqb d a).
  - destruct (sym_read w st b) as [[vb s1]|] eqn:R1; [|discriminate].
    destruct (sym_read w s1 a) as [[va s2]|] eqn:R2; [|discriminate]. injection H as <-.
    destruct (sym_read_sound A st sb b vb s1 R R1) as (V1 & RB1 & S1 & F1).
    destruct (bc_read w sb b) as [xb sb1]. cbn [fst snd] in *.
    destruct (sym_read_sound A s1 sb1 a va s2 RB1 R2) as (V2 & RB2 & S2 & F2).
    destruct (bc_read w sb1 a) as [xa sb2]. cbn [fst snd] in *.
    destruct (sym_write_sound A s2 sb2 d (f va vb) (op xa xb) RB2 ltac:(rewrite V1, V2; apply OP)) as (RW & SW & FW).
    split; [exact RW|]. split; [exact (bsame_trans _ _ _ (bsame_trans _ _ _ S1 S2) SW)|].
    destruct F1 as (? & ? & ? & ?), F2 as (? & ? & ? & ?), FW as (? & ? & ? & ?).
    split; [congruence|]. split; [congruence|]. split; congruence.
  - destruct (sym_read w st a) as [[va s1]|] eqn:R1; [|discriminate].
    destruct (sym_read w s1 b) as [[vb s2]|] eqn:R2; [|discriminate]. injection H as <-.
    destruct (sym_read_sound A st sb a va s1 R R1) as (V1 & RB1 & S1 & F1).
    destruct (bc_read w sb a) as [xa sb1]. cbn [fst snd] in *.
    destruct (sym_read_sound A s1 sb1 b vb s2 RB1 R2) as (V2 & RB2 & S2 & F2).
    destruct (bc_read w sb1 b) as [xb sb2]. cbn [fst snd] in *.
    destruct (sym_write_sound A s2 sb2 d (f va vb) (op xa xb) RB2 ltac:(rewrite V1, V2; apply OP)) as (RW & SW & FW).
    split; [exact RW|]. split; [exact (bsame_trans _ _ _ (bsame_trans _ _ _ S1 S2) SW)|].
    destruct F1 as (? & ? & ? & ?), F2 as (? & ? & ? & ?), FW as (? & ? & ? & ?).
    split; [congruence|]. split; [congruence|]. split; congruence.
Qed.

(** ** the bytecode program *)
Variable code : list binstr.
Variable fetch : Z -> option binstr.
Hypothesis Hfetch : forall pc, fetch pc = code_at code pc.
Notation len := (Z.of_nat (length code)).
Notation bexec := (bc_exec w e false fetch len).

Lemma code_at_lt : forall pc i, code_at code pc = Some i -> 0 <= pc < len.
Proof.
  intros pc i H. unfold code_at in H. destruct (pc <? 0) eqn:N; [discriminate|]. apply Z.ltb_ge in N.
  assert (L : (Z.to_nat pc < length code)%nat) by (apply nth_error_Some; congruence). lia.
Qed.

Lemma bexec_at : forall f s i, code_at code (bc_pc s) = Some i ->
  bexec (S f) s = bc_exec w e false fetch len (S f) s /\ (bc_pc s =? len) = false /\ fetch (bc_pc s) = Some i.
Proof.
  intros f s i H. pose proof (code_at_lt _ _ H) as L. split; [reflexivity|]. split; [apply Z.eqb_neq; lia|].
  rewrite Hfetch. exact H.
Qed.

Lemma RB_next : forall A st s, RB A st s -> RB A st (next s).
Proof. intros A st s R. exact R. Qed.

Lemma RB_bsame_io : forall s s', bsame s s' -> bc_io s' = bc_io s.
Proof. intros s s' (_ & H & _). exact H. Qed.

Lemma sym_bc_step_sound : forall A st sb i st' evs, RB A st sb -> sym_bc_step w st i = Some (st', evs) ->
  code_at code (bc_pc sb) = Some i ->
  match io_run (map (cev A) evs) (bc_io sb) with
  | (io', true) => exists sb', (forall f, bexec (S f) sb = bexec f sb') /\ bc_io sb' = io' /\ RB A st' sb'
                               /\ bc_pc sb' = bc_pc sb + 1
                               /\ s_ci st' = s_ci st /\ s_d st' = s_d st /\ s_nz st' = s_nz st
  | (io', false) => exists sb', (forall f, bexec (S f) sb = Stopped sb') /\ bc_io sb' = io'
  end.
Proof.
  intros A st sb i st' evs R H CA. destruct (bexec_at 0 sb i CA) as (_ & NL & FE).
  pose proof R as (P & IP & N & C & T).
  assert (BIN : forall op fs d a b s1, (forall p q, op (ev A p) (ev A q) = ev A (fs p q)) ->
            sym_binop w fs st d a b = Some s1 ->
            bc_io (next (bc_binop w op sb d a b)) = bc_io sb /\ RB A s1 (next (bc_binop w op sb d a b))
            /\ bc_pc (next (bc_binop w op sb d a b)) = bc_pc sb + 1
            /\ s_ci s1 = s_ci st /\ s_d s1 = s_d st /\ s_nz s1 = s_nz st).
  { intros op fs d a b s1 OP SB. destruct (sym_binop_sound A op fs st sb d a b s1 OP R SB) as (R1 & (B1 & B2 & B3) & F1 & F2 & F3 & F4).
    split; [exact B2|]. split; [exact R1|]. split; [cbn; rewrite B3; reflexivity|].
    split; [exact F1|]. split; [exact F2|exact F3]. }
  destruct i as [|c sh|sh|dst|src|c off|c off|d a b|d a b|d a b|d a]; cbn [sym_bc_step] in H; try discriminate.
  - injection H as <- <-. cbn [map io_run]. exists (next sb).
    split; [intros f; cbn [bc_exec]; rewrite NL, FE; reflexivity|].
    split; [reflexivity|]. split; [exact R|]. split; [reflexivity|]. split; [reflexivity|split; reflexivity].
  - injection H as <- <-. cbn [map cev io_run].
    destruct (do_input e (bc_io sb)) as [b io'|io'] eqn:I.
    + exists (next (bc_set_mem (bc_set_io sb io') dst (from_u8 w b))).
      split; [intros f; cbn [bc_exec]; rewrite NL, FE, I; reflexivity|]. split; [reflexivity|].
      destruct (input_value _ _ _ I) as (_ & IP' & _).
      split.
      * assert (R0 : RB A (set_n st (s_n st + 1)) (bc_set_io sb io')).
        { split; [exact P|]. split; [cbn; rewrite IP', IP, Z2Nat.inj_add by lia; cbn; lia|]. split; [cbn; lia|]. split; [exact C|exact T]. }
        apply (RB_set_mem A (set_n st (s_n st + 1)) (bc_set_io sb io') dst (e_var (ainp (s_n st))) (from_u8 w b) R0).
        apply (from_u8_ainp A (s_n st) _ _ _ N IP I).
      * split; [reflexivity|]. split; [reflexivity|split; reflexivity].
    + exists (bc_set_io sb io'). split; [intros f; cbn [bc_exec]; rewrite NL, FE, I; reflexivity|reflexivity].
  - injection H as <- <-. cbn [map cev io_run].
    assert (MV : bc_mem sb src = ev A (cell_b st src)) by (unfold bc_mem; rewrite P; apply C).
    destruct (do_output e (bc_io sb) (into_u8 w (ev A (cell_b st src)))) as [u io'|io'] eqn:O.
    + exists (next (bc_set_io sb io')). split; [intros f; cbn [bc_exec]; rewrite NL, FE, MV, O; reflexivity|]. split; [reflexivity|].
      split; [split; [exact P|]; split; [cbn; rewrite (output_pos _ _ _ _ O); exact IP|]; split; [exact N|]; split; [exact C|exact T]|].
      split; [reflexivity|]. split; [reflexivity|split; reflexivity].
    + exists (bc_set_io sb io'). split; [intros f; cbn [bc_exec]; rewrite NL, FE, MV, O; reflexivity|reflexivity].
  - destruct (sym_binop w (e_add w) st d a b) as [s1|] eqn:SB; [|discriminate]. injection H as <- <-.
    destruct (BIN (wadd w) (e_add w) d a b s1 (wadd_ev A) SB) as (I1 & R1 & P1 & F1 & F2 & F3).
    cbn [map io_run]. exists (next (bc_binop w (wadd w) sb d a b)).
    split; [intros f; cbn [bc_exec]; rewrite NL, FE; reflexivity|].
    split; [exact I1|]. split; [exact R1|]. split; [exact P1|]. split; [exact F1|split; [exact F2|exact F3]].
  - destruct (sym_binop w (fun x y => e_add w x (e_neg w y)) st d a b) as [s1|] eqn:SB; [|discriminate]. injection H as <- <-.
    destruct (BIN (fun x y => wadd w x (wneg w y)) (fun x y => e_add w x (e_neg w y)) d a b s1 (wsub_ev A) SB)
      as (I1 & R1 & P1 & F1 & F2 & F3).
    cbn [map io_run]. exists (next (bc_binop w (fun x y => wadd w x (wneg w y)) sb d a b)).
    split; [intros f; cbn [bc_exec]; rewrite NL, FE; reflexivity|].
    split; [exact I1|]. split; [exact R1|]. split; [exact P1|]. split; [exact F1|split; [exact F2|exact F3]].
  - destruct (sym_binop w (e_mul w) st d a b) as [s1|] eqn:SB; [|discriminate]. injection H as <- <-.
    destruct (BIN (wmul w) (e_mul w) d a b s1 (wmul_ev A) SB) as (I1 & R1 & P1 & F1 & F2 & F3).
    cbn [map io_run]. exists (next (bc_binop w (wmul w) sb d a b)).
    split; [intros f; cbn [bc_exec]; rewrite NL, FE; reflexivity|].
    split; [exact I1|]. split; [exact R1|]. split; [exact P1|]. split; [exact F1|split; [exact F2|exact F3]].
  - destruct (sym_read w st a) as [[v s1]|] eqn:SR; [|discriminate]. injection H as <- <-.
    destruct (sym_read_sound A st sb a v s1 R SR) as (V1 & RB1 & (B1 & B2 & B3) & F1 & F2 & F3 & F4).
    cbn [map io_run]. destruct (bc_read w sb a) as [x sb1] eqn:BR. cbn [fst snd] in *.
    destruct (sym_write_sound A s1 sb1 d v x RB1 V1) as (RW & (W1 & W2 & W3) & G1 & G2 & G3 & G4).
    exists (next (bc_write sb1 d x)). split; [intros f; cbn [bc_exec]; rewrite NL, FE, BR; reflexivity|].
    split; [cbn; congruence|]. split; [exact RW|].
    split; [cbn; congruence|]. split; [congruence|]. split; congruence.
Qed.

Lemma sym_bc_sound : forall seg A st sb st' evs, RB A st sb -> sym_bc w seg st = Some (st', evs) ->
  (forall j, (j < length seg)%nat -> code_at code (bc_pc sb + Z.of_nat j) = nth_error seg j) ->
  match io_run (map (cev A) evs) (bc_io sb) with
  | (io', true) => exists sb', (forall f, bexec (length seg + f) sb = bexec f sb') /\ bc_io sb' = io' /\ RB A st' sb'
                               /\ bc_pc sb' = bc_pc sb + Z.of_nat (length seg)
                               /\ s_ci st' = s_ci st /\ s_d st' = s_d st /\ s_nz st' = s_nz st
  | (io', false) => exists sb', (forall f, bexec (length seg + f) sb = Stopped sb') /\ bc_io sb' = io'
  end.
Proof.
  induction seg as [|i seg IH]; intros A st sb st' evs R H AT; cbn [sym_bc] in H.
  - injection H as <- <-. cbn. exists sb. split; [reflexivity|]. split; [reflexivity|]. split; [exact R|].
    split; [lia|]. split; [reflexivity|split; reflexivity].
  - destruct (sym_bc_step w st i) as [[st1 e1]|] eqn:S1; [|discriminate].
    destruct (sym_bc w seg st1) as [[st2 e2]|] eqn:S2; [|discriminate]. injection H as <- <-.
    rewrite map_app, io_run_app.
    assert (CA : code_at code (bc_pc sb) = Some i).
    { specialize (AT 0%nat ltac:(cbn; lia)). cbn in AT. rewrite Z.add_0_r in AT. exact AT. }
    pose proof (sym_bc_step_sound A st sb i st1 e1 R S1 CA) as ST.
    destruct (io_run (map (cev A) e1) (bc_io sb)) as [io1 [|]].
    + destruct ST as (sb1 & E1 & I1 & R1 & P1 & F1 & F2 & F3).
      assert (AT1 : forall j, (j < length seg)%nat -> code_at code (bc_pc sb1 + Z.of_nat j) = nth_error seg j).
      { intros j J. specialize (AT (S j) ltac:(cbn; lia)). cbn [nth_error] in AT. rewrite <- AT. f_equal. lia. }
      specialize (IH A st1 sb1 st2 e2 R1 S2 AT1). rewrite I1 in IH.
      destruct (io_run (map (cev A) e2) io1) as [io2 [|]].
      * destruct IH as (sb2 & E2 & I2 & R2 & P2 & G1 & G2 & G3). exists sb2.
        split; [intros f; cbn [length plus]; rewrite E1; apply E2|]. split; [exact I2|].
        split; [exact R2|]. split; [rewrite P2, P1; cbn [length]; lia|]. split; [congruence|split; congruence].
      * destruct IH as (sb2 & E2 & I2). exists sb2. split; [intros f; cbn [length plus]; rewrite E1; apply E2|exact I2].
    + destruct ST as (sb1 & E1 & I1). exists sb1. split; [intros f; cbn [length plus]; apply E1|exact I1].
Qed.

(** the extracted segment sits in the code at [pc] and consists of straight-line instructions *)
Lemma seg_from_nth : forall l pc stop head j, (j < length (seg_from l pc stop head))%nat ->
  nth_error (seg_from l pc stop head) j = nth_error l j.
Proof.
  induction l as [|i l IH]; intros pc stop head j J; cbn [seg_from] in *; [cbn in J; lia|].
  destruct ((pc <? stop) && is_arith i && negb (at_head head pc)); [|cbn in J; lia].
  destruct j as [|j]; [reflexivity|]. cbn [nth_error]. apply IH. cbn [length] in J. lia.
Qed.

Lemma seg_from_bound : forall l pc stop head, pc + Z.of_nat (length (seg_from l pc stop head)) <= Z.max pc stop.
Proof.
  induction l as [|i l IH]; intros pc stop head; cbn [seg_from]; [cbn; lia|].
  destruct ((pc <? stop) && is_arith i && negb (at_head head pc)) eqn:E; [|cbn; lia].
  apply andb_prop in E. destruct E as [E _]. apply andb_prop in E. destruct E as [E _]. apply Z.ltb_lt in E.
  cbn [length]. specialize (IH (pc + 1) stop head). lia.
Qed.

Lemma nth_error_skipn_add : forall (A : Type) n (l : list A) j, nth_error (skipn n l) j = nth_error l (n + j).
Proof.
  intros A n. induction n as [|n IH]; intros l j; [reflexivity|]. destruct l as [|x l]; [destruct j; reflexivity|].
  cbn [skipn plus nth_error]. apply IH.
Qed.

Lemma segment_at : forall pc stop head j, 0 <= pc -> (j < length (bc_segment code pc stop head))%nat ->
  code_at code (pc + Z.of_nat j) = nth_error (bc_segment code pc stop head) j.
Proof.
  intros pc stop head j P J. unfold bc_segment in *. destruct (pc <? 0) eqn:N; [apply Z.ltb_lt in N; lia|].
  rewrite (seg_from_nth _ _ _ _ _ J). unfold code_at.
  destruct (pc + Z.of_nat j <? 0) eqn:N2; [apply Z.ltb_lt in N2; lia|].
  rewrite nth_error_skipn_add. f_equal. lia.
Qed.

Lemma segment_bound : forall pc stop head, 0 <= pc -> pc <= stop ->
  pc + Z.of_nat (length (bc_segment code pc stop head)) <= stop.
Proof.
  intros pc stop head P S. unfold bc_segment. destruct (pc <? 0) eqn:N; [apply Z.ltb_lt in N; lia|].
  pose proof (seg_from_bound (skipn (Z.to_nat pc) code) pc stop head). lia.
Qed.

Lemma split_simple_spec : forall l pre rest, split_simple l = (pre, rest) ->
  l = pre ++ rest /\ forallb is_simple pre = true /\ match rest with i :: _ => is_simple i = false | [] => True end.
Proof.
  induction l as [|i l IH]; intros pre rest H; cbn [split_simple] in H.
  - injection H as <- <-. repeat split.
  - destruct (is_simple i) eqn:S.
    + destruct (split_simple l) as [a b] eqn:SL. injection H as <- <-. destruct (IH a b eq_refl) as (E & F & G).
      split; [cbn; congruence|]. split; [cbn; rewrite S; exact F|exact G].
    + injection H as <- <-. split; [reflexivity|]. split; [reflexivity|exact S].
Qed.

Lemma RI_ext : forall A st st' si, RI A st si -> s_ci st' = s_ci st -> s_d st' = s_d st -> s_n st' = s_n st -> RI A st' si.
Proof.
  intros A st st' si (P & IP & N & C) E1 E2 E3. split; [exact P|]. split; [rewrite E3; exact IP|]. split; [rewrite E3; exact N|].
  intros k. rewrite C. unfold cell_i. rewrite E1, E2. reflexivity.
Qed.
Lemma RB_ext : forall A st st' sb, RB A st sb -> s_cb st' = s_cb st -> s_d st' = s_d st -> s_t st' = s_t st ->
  s_n st' = s_n st -> RB A st' sb.
Proof.
  intros A st st' sb (P & IP & N & C & T) E1 E2 E3 E4. split; [exact P|]. split; [rewrite E4; exact IP|]. split; [rewrite E4; exact N|].
  split; [intros k; rewrite C; unfold cell_b; rewrite E1, E2; reflexivity|]. intros t p. rewrite E3. apply T.
Qed.

Lemma ev_eq_sound : forall A a b, ev_eq w a b = true -> map (cev A) a = map (cev A) b.
Proof.
  intros A. induction a as [|[p|] a IH]; intros [|[q|] b] H; cbn [ev_eq] in H; try discriminate; [reflexivity| |].
  - apply andb_prop in H. destruct H as [H1 H2]. cbn [map cev]. unfold ev.
    rewrite (tv_same_sound w Hw p q _ H1), (IH b H2). reflexivity.
  - cbn [map cev]. rewrite (IH b H). reflexivity.
Qed.

(** ** fuel monotonicity of the bytecode model and the reachability relation *)
Definition bterminal (o : outcome bcst) : Prop := match o with Done _ | Stopped _ => True | _ => False end.

Lemma bc_scan_mono : forall f c sh s s', bc_scan f c sh s = Some s' -> forall f', (f <= f')%nat -> bc_scan f' c sh s = Some s'.
Proof.
  induction f as [|f IH]; intros c sh s s' H f' L; [discriminate|]. destruct f' as [|f']; [lia|].
  cbn [bc_scan] in *. destruct (bc_mem s c =? 0); [exact H|]. apply (IH _ _ _ _ H). lia.
Qed.

Lemma bexec_mono : forall f s o, bexec f s = o -> bterminal o -> forall f', (f <= f')%nat -> bexec f' s = o.
Proof.
  induction f as [|f IH]; intros s o H T f' L; [cbn in H; subst o; contradiction|].
  destruct f' as [|f']; [lia|]. cbn [bc_exec] in *.
  destruct (bc_pc s =? len); [exact H|]. destruct (fetch (bc_pc s)) as [i|]; [|exact H].
  assert (L' : (f <= f')%nat) by lia.
  destruct i as [|c sh|sh|dst|src|c off|c off|d a b|d a b|d a b|d a]; cbn [andb] in *.
  - apply (IH _ _ H T _ L').
  - destruct (bc_scan (S f) c sh s) as [s'|] eqn:SC; [|subst o; contradiction].
    rewrite (bc_scan_mono _ _ _ _ _ SC (S f') ltac:(lia)). apply (IH _ _ H T _ L').
  - apply (IH _ _ H T _ L').
  - destruct (do_input e (bc_io s)); [apply (IH _ _ H T _ L')|exact H].
  - destruct (do_output e (bc_io s) _); [apply (IH _ _ H T _ L')|exact H].
  - destruct (bc_mem s c =? 0); apply (IH _ _ H T _ L').
  - destruct (bc_mem s c =? 0); apply (IH _ _ H T _ L').
  - apply (IH _ _ H T _ L').
  - apply (IH _ _ H T _ L').
  - apply (IH _ _ H T _ L').
  - destruct (bc_read w s a). apply (IH _ _ H T _ L').
Qed.

(** [reach s s']: every terminating run from [s'] is a terminating run from [s], and every
    terminating run from [s] passes through [s'] (with no more fuel) *)
Definition reach (s s' : bcst) : Prop :=
  (exists n, forall f o, bexec f s' = o -> bterminal o -> bexec (n + f) s = o) /\
  (forall g o, bexec g s = o -> bterminal o -> exists g', (g' <= g)%nat /\ bexec g' s' = o).
Definition reach_stop (s : bcst) (io : iost) : Prop :=
  exists n s', bexec n s = Stopped s' /\ bc_io s' = io.

Lemma reach_refl : forall s, reach s s.
Proof.
  intros s. split; [exists 0%nat; intros f o H _; exact H|]. intros g o H _. exists g. split; [lia|exact H].
Qed.
Lemma reach_trans : forall a b c, reach a b -> reach b c -> reach a c.
Proof.
  intros a b c ((n1 & H1) & B1) ((n2 & H2) & B2). split.
  - exists (n1 + n2)%nat. intros f o H T. rewrite <- Nat.add_assoc. apply H1; [|exact T]. apply H2; assumption.
  - intros g o H T. destruct (B1 g o H T) as (g1 & L1 & E1). destruct (B2 g1 o E1 T) as (g2 & L2 & E2).
    exists g2. split; [lia|exact E2].
Qed.
Lemma reach_steps : forall n s s', (forall f, bexec (n + f) s = bexec f s') -> reach s s'.
Proof.
  intros n s s' H. split; [exists n; intros f o E _; rewrite H; exact E|].
  intros g o E T. destruct (Nat.le_gt_cases n g) as [L|L].
  - exists (g - n)%nat. split; [lia|]. rewrite <- H. replace (n + (g - n))%nat with g by lia. exact E.
  - exfalso. pose proof (bexec_mono g s o E T n ltac:(lia)) as E2. specialize (H 0%nat). rewrite Nat.add_0_r in H.
    rewrite H in E2. cbn in E2. rewrite <- E2 in T. exact T.
Qed.
(** one exact step: strictly less fuel is left *)
Lemma step_back : forall s s', (forall f, bexec (S f) s = bexec f s') ->
  forall g o, bexec g s = o -> bterminal o -> exists g', (g' < g)%nat /\ bexec g' s' = o.
Proof.
  intros s s' H g o E T. destruct g as [|g]; [cbn in E; subst o; contradiction|]. exists g. split; [lia|]. rewrite <- H. exact E.
Qed.
Lemma reach_then_stop : forall a b io, reach a b -> reach_stop b io -> reach_stop a io.
Proof.
  intros a b io ((n1 & H1) & _) (n2 & s' & H2 & I). exists (n1 + n2)%nat, s'. split; [|exact I]. apply H1; [exact H2|exact Logic.I].
Qed.

(** ** re-anchoring *)
Lemma eval_ext_in : forall q g1 g2, (forall v, List.In v (e_variables q) -> g1 v = g2 v) -> eval w q g1 = eval w q g2.
Proof.
  intros q g1 g2 H. unfold eval.
  assert (P : forall p, List.In p q -> eval_part w g1 p = eval_part w g2 p).
  { intros [c vs] IN. unfold eval_part. cbn [fst snd].
    assert (V : forall v, List.In v vs -> g1 v = g2 v).
    { intros v IV. apply H. unfold e_variables. apply in_flat_map. exists (c, vs). split; [exact IN|exact IV]. }
    clear IN. revert c. induction vs as [|v vs IH]; intros c; [reflexivity|]. cbn [fold_left].
    rewrite (V v (or_introl eq_refl)). apply IH. intros v' IV. apply V. right. exact IV. }
  generalize 0. clear H. induction q as [|p q IH]; intros a; [reflexivity|]. cbn [fold_left].
  rewrite (P p (or_introl eq_refl)). apply IH. intros p' IN. apply P. right. exact IN.
Qed.

Definition anchor_of (si : irst) (sb : bcst) : anchor :=
  {| a_ti := ir_tape si; a_tb := bc_tape sb; a_tmps := bc_tmps sb; a_ptr := bc_ptr sb; a_pos := in_pos (bc_io sb) |}.

Lemma ev_red : forall A p, ev A p mod M = ev A p.
Proof. intros. apply eval_red. exact Hw. Qed.

Lemma look_not_in : forall k m, ~ List.In k (map fst m) -> look k m = None.
Proof.
  intros k m. induction m as [|[k' v] m IH]; intros N; [reflexivity|]. cbn [look].
  destruct (k' =? k) eqn:E; [apply Z.eqb_eq in E; subst; exfalso; apply N; left; reflexivity|].
  apply IH. intros I. apply N. right. exact I.
Qed.
Lemma look_in : forall k v m, look k m = Some v -> List.In (k, v) m.
Proof.
  intros k v m. induction m as [|[k' v'] m IH]; intros H; [discriminate|]. cbn [look] in H.
  destruct (k' =? k) eqn:E; [apply Z.eqb_eq in E; injection H as <-; subst; left; reflexivity|right; apply IH; exact H].
Qed.
Lemma memz_not_in : forall k l, ~ List.In k l -> memz k l = false.
Proof.
  intros k l. induction l as [|x l IH]; intros N; [reflexivity|]. cbn [memz].
  destruct (x =? k) eqn:E; [apply Z.eqb_eq in E; subst; exfalso; apply N; left; reflexivity|].
  apply IH. intros I. apply N. right. exact I.
Qed.
Lemma memz_in : forall k l, memz k l = true -> List.In k l.
Proof.
  intros k l. induction l as [|x l IH]; intros H; [discriminate|]. cbn [memz] in H.
  destruct (x =? k) eqn:E; [apply Z.eqb_eq in E; left; exact E|right; apply IH; exact H].
Qed.

(** cells outside [keys st] are untouched common cells *)
Lemma not_key_cells : forall st k, ~ List.In k (TV.keys st) ->
  cell_i st k = e_var (acell k) /\ cell_b st k = e_var (acell k).
Proof.
  intros st k N. unfold TV.keys in N. rewrite !in_app_iff in N. unfold cell_i, cell_b.
  rewrite (look_not_in k (s_ci st)) by tauto. rewrite (look_not_in k (s_cb st)) by tauto.
  rewrite (memz_not_in k (s_d st)) by tauto. split; reflexivity.
Qed.

Lemma tv_same_ev : forall A a b, tv_same w a b = true -> ev A a = ev A b.
Proof. intros A a b H. apply (tv_same_sound w Hw). exact H. Qed.

Lemma agree_sound : forall A st k, agree w st k = true -> ev A (cell_i st k) = ev A (cell_b st k).
Proof. intros A st k H. apply (tv_same_sound w Hw). exact H. Qed.

(** both tapes hold the same value in a cell that is not a key or on which the sides agree *)
Lemma same_value : forall A st si sb k, Rel A st si sb -> (agree w st k = true \/ ~ List.In k (TV.keys st)) ->
  tget (ir_tape si) (a_ptr A + k) = tget (bc_tape sb) (a_ptr A + k).
Proof.
  intros A st si sb k ((_ & _ & _ & CI) & (_ & _ & _ & CB & _) & _) [H|H]; rewrite CI, CB.
  - apply agree_sound. exact H.
  - destruct (not_key_cells st k H) as [E1 E2]. rewrite E1, E2. reflexivity.
Qed.

Lemma subst_sound : forall A st si sb q, Rel A st si sb -> subst_ok w st q = true ->
  ev A (subst_st w st q) = ev (anchor_of si sb) q.
Proof.
  intros A st si sb q R OK. unfold subst_st, ev. rewrite (psubst_sound w Hw). apply eval_ext_in.
  intros a IN. unfold subst_ok in OK. rewrite forallb_forall in OK. specialize (OK a IN).
  destruct R as ((PI & _ & _ & CI) & (PB & _ & _ & CB & TB) & _).
  unfold atom_ok in OK. unfold atom_val, rho. cbn [anchor_of a_ti a_tb a_tmps a_ptr a_pos].
  destruct (a mod 5 =? 0) eqn:E0.
  - rewrite PB. symmetry. apply CB.
  - destruct (a mod 5 =? 1) eqn:E1; [rewrite PB; symmetry; apply CI|].
    destruct (a mod 5 =? 2) eqn:E2; [rewrite PB; symmetry; apply CB|].
    destruct (a mod 5 =? 3) eqn:E3; [|discriminate].
    destruct (look (a / 5) (s_t st)) as [p|] eqn:L; [|discriminate]. symmetry. apply (TB _ _ L).
Qed.

Lemma bot_false : forall A st si sb, is_bot st = true -> Rel A st si sb -> False.
Proof.
  intros A st si sb H (_ & _ & _ & _ & NZ). unfold is_bot in H. apply existsb_exists in H. destruct H as (p & IN & E).
  destruct p; [|discriminate]. apply (NZ [] IN). reflexivity.
Qed.

Lemma nonzero_in_sound : forall A st si sb p, Rel A st si sb -> nonzero_in w st p = true -> ev A p <> 0.
Proof.
  intros A st si sb p R H. unfold nonzero_in in H. apply orb_prop in H. destruct H as [H|H];
    [apply orb_prop in H; destruct H as [H|H]; [exfalso; exact (bot_false A st si sb H R)|]|].
  - unfold is_nz_const in H. destruct p as [|[c [|v vs]] [|p2 p]]; try discriminate.
    apply negb_true_iff, Z.eqb_neq in H. unfold ev, eval. cbn [fold_left eval_part fst snd]. unfold wadd.
    rewrite Z.add_0_l. exact H.
  - apply existsb_exists in H. destruct H as (q & IN & S). unfold ev. rewrite (tv_same_sound w Hw p q _ S).
    destruct R as (_ & _ & _ & _ & NZ). apply NZ. exact IN.
Qed.

Lemma entails_sound : forall A st si sb f, Rel A st si sb -> entails w st f = true ->
  Rel (anchor_of si sb) (st_of_facts f) si sb.
Proof.
  intros A st si sb f R H. unfold entails in H.
  apply orb_prop in H. destruct H as [H|H]; [exfalso; exact (bot_false A st si sb H R)|].
  apply andb_prop in H. destruct H as [H HNZ]. apply andb_prop in H. destruct H as [H HT].
  apply andb_prop in H. destruct H as [HD HC].
  rewrite forallb_forall in HD, HC, HT, HNZ.
  pose proof R as ((PI & IPI & NI & CI) & (PB & IPB & NB & CB & TB) & IO & AG & NZ).
  set (A' := anchor_of si sb).
  (* every cell that is not declared differing holds the same value on both tapes *)
  assert (SAME : forall k, memz k (f_d f) = false -> tget (ir_tape si) (a_ptr A + k) = tget (bc_tape sb) (a_ptr A + k)).
  { intros k ND. apply (same_value A st si sb k R).
    destruct (in_dec Z.eq_dec k (TV.keys st)) as [IK|NK]; [|right; exact NK]. left.
    specialize (HC k ltac:(apply in_or_app; left; exact IK)). rewrite ND in HC. cbn [orb] in HC.
    apply andb_prop in HC. destruct HC as [HC _]. exact HC. }
  (* a declared cell fact gives the value of the cell *)
  assert (FACT : forall k q, look k (f_c f) = Some q -> memz k (f_d f) = false /\ ev A (cell_b st k) = ev A' q
                              /\ agree w st k = true).
  { intros k q L. assert (ND : memz k (f_d f) = false).
    { destruct (memz k (f_d f)) eqn:MD; [|reflexivity]. specialize (HD k (memz_in _ _ MD)). rewrite L in HD. discriminate. }
    split; [exact ND|].
    specialize (HC k ltac:(apply in_or_app; right; apply in_map_iff; exists (k, q); split; [reflexivity|apply look_in; exact L])).
    rewrite ND, L in HC. cbn [orb] in HC. apply andb_prop in HC. destruct HC as [AGk HC]. apply andb_prop in HC. destruct HC as [OK SM].
    split; [|exact AGk]. rewrite (tv_same_ev A _ _ SM). apply (subst_sound A st si sb q R OK). }
  assert (PAB : a_ptr A' = a_ptr A) by (cbn; exact PB).
  split; [|split; [|split; [exact IO|split]]].
  - split; [cbn; congruence|]. split; [cbn; rewrite IO; lia|]. split; [cbn; lia|].
    intros k. rewrite PAB. unfold cell_i. cbn [st_of_facts s_ci s_d].
    destruct (look k (f_c f)) as [q|] eqn:L.
    + destruct (FACT k q L) as (ND & EV & AGk). rewrite <- EV, <- (agree_sound A st k AGk). apply CI.
    + destruct (memz k (f_d f)) eqn:MD.
      * rewrite ev_var, rho_axi. cbn [A' anchor_of a_ti a_ptr]. rewrite PB, CI. symmetry. apply ev_red.
      * rewrite ev_var, rho_acell. cbn [A' anchor_of a_tb a_ptr]. rewrite PB, <- (SAME k MD), CI. symmetry. apply ev_red.
  - split; [cbn; reflexivity|]. split; [cbn; lia|]. split; [cbn; lia|]. split.
    + intros k. rewrite PAB. unfold cell_b. cbn [st_of_facts s_cb s_d].
      destruct (look k (f_c f)) as [q|] eqn:L.
      * destruct (FACT k q L) as (ND & EV & AGk). rewrite <- EV. apply CB.
      * destruct (memz k (f_d f)) eqn:MD.
        -- rewrite ev_var, rho_axb. cbn [A' anchor_of a_tb a_ptr]. rewrite PB, CB. symmetry. apply ev_red.
        -- rewrite ev_var, rho_acell. cbn [A' anchor_of a_tb a_ptr]. rewrite PB, CB. symmetry. apply ev_red.
    + intros t q L. cbn [st_of_facts s_t] in L. specialize (HT (t, q) (look_in _ _ _ L)). cbn [fst snd] in HT.
      destruct (look t (s_t st)) as [p|] eqn:LT; [|discriminate]. apply andb_prop in HT. destruct HT as [OK SM].
      rewrite (TB t p LT), (tv_same_ev A _ _ SM). apply (subst_sound A st si sb q R OK).
  - intros k ND. cbn [st_of_facts s_d] in ND. cbn [A' anchor_of a_ti a_tb a_ptr]. rewrite PB, (SAME k ND). reflexivity.
  - intros q IN. cbn [st_of_facts s_nz] in IN. specialize (HNZ q IN). apply andb_prop in HNZ. destruct HNZ as [OK NZq].
    subst A'. rewrite <- (subst_sound A st si sb q R OK). apply (nonzero_in_sound A st si sb _ R NZq).
Qed.

Lemma look_map_t : forall (g : Z -> expr -> expr) t m,
  look t (map (fun tp => (fst tp, g (fst tp) (snd tp))) m) = option_map (g t) (look t m).
Proof.
  intros g t m. induction m as [|[t' p] m IH]; [reflexivity|]. cbn [map look fst snd].
  destruct (t' =? t) eqn:E; [apply Z.eqb_eq in E; subst; reflexivity|exact IH].
Qed.

Lemma is_const_ev : forall A A' p, is_const p = true -> ev A p = ev A' p.
Proof.
  intros A A' p H. unfold ev. apply eval_ext_in. intros v IN. exfalso.
  destruct p as [|[c [|x vs]] [|p2 p]]; try discriminate; cbn in IN; tauto.
Qed.

Lemma memz_true : forall k l, List.In k l -> memz k l = true.
Proof.
  intros k l. induction l as [|x l IH]; intros H; [destruct H|]. cbn [memz]. destruct H as [H|H].
  - subst. rewrite Z.eqb_refl. reflexivity.
  - rewrite (IH H). apply orb_true_r.
Qed.

Lemma moved_sound : forall A st si sb shift, Rel A st si sb ->
  Rel (anchor_of (ir_move si shift) (bc_move sb shift)) (moved w st shift) (ir_move si shift) (bc_move sb shift).
Proof.
  intros A st si sb shift R.
  pose proof R as ((PI & IPI & NI & CI) & (PB & IPB & NB & CB & TB) & IO & AG & NZ).
  assert (VI : forall k, tget (ir_tape si) (a_ptr A + shift + k) mod M = tget (ir_tape si) (a_ptr A + shift + k)).
  { intros k. replace (a_ptr A + shift + k) with (a_ptr A + (shift + k)) by lia. rewrite CI. apply ev_red. }
  assert (VB : forall k, tget (bc_tape sb) (a_ptr A + shift + k) mod M = tget (bc_tape sb) (a_ptr A + shift + k)).
  { intros k. replace (a_ptr A + shift + k) with (a_ptr A + (shift + k)) by lia. rewrite CB. apply ev_red. }
  assert (SAME : forall k, memz k (s_d (moved w st shift)) = false ->
            tget (ir_tape si) (a_ptr A + shift + k) = tget (bc_tape sb) (a_ptr A + shift + k)).
  { intros k ND. replace (a_ptr A + shift + k) with (a_ptr A + (shift + k)) by lia.
    apply (same_value A st si sb (shift + k) R).
    destruct (in_dec Z.eq_dec (shift + k) (TV.keys st)) as [IK|NK]; [|right; exact NK]. left.
    destruct (agree w st (shift + k)) eqn:AGk; [reflexivity|]. exfalso.
    cbn [moved s_d] in ND. rewrite memz_true in ND; [discriminate|].
    apply in_map_iff. exists (shift + k). split; [lia|]. apply filter_In. split; [exact IK|rewrite AGk; reflexivity]. }
  split; [|split; [|split; [exact IO|split]]].
  - split; [cbn; lia|]. split; [cbn; rewrite IO; lia|]. split; [cbn; lia|].
    intros k. cbn [anchor_of a_ptr bc_move bc_ptr ir_move ir_tape]. rewrite PB.
    unfold cell_i. cbn [moved s_ci look].
    destruct (memz k (s_d (moved w st shift))) eqn:MD.
    + rewrite ev_var, rho_axi. cbn [anchor_of a_ti a_ptr bc_move bc_ptr ir_move ir_tape]. rewrite PB. symmetry. apply VI.
    + rewrite ev_var, rho_acell. cbn [anchor_of a_tb a_ptr bc_move bc_ptr bc_tape]. rewrite PB, <- (SAME k MD). symmetry. apply VI.
  - split; [cbn; reflexivity|]. split; [cbn; lia|]. split; [cbn; lia|]. split.
    + intros k. cbn [anchor_of a_ptr bc_move bc_ptr bc_tape]. rewrite PB.
      unfold cell_b. cbn [moved s_cb look].
      destruct (memz k (s_d (moved w st shift))) eqn:MD.
      * rewrite ev_var, rho_axb. cbn [anchor_of a_tb a_ptr bc_move bc_ptr bc_tape]. rewrite PB. symmetry. apply VB.
      * rewrite ev_var, rho_acell. cbn [anchor_of a_tb a_ptr bc_move bc_ptr bc_tape]. rewrite PB. symmetry. apply VB.
    + intros t q L. cbn [moved s_t] in L.
      rewrite (look_map_t (fun t p => if is_const p then p else e_var (atmp t))) in L.
      destruct (look t (s_t st)) as [p|] eqn:LT; [|discriminate]. cbn [option_map] in L. injection L as <-.
      cbn [bc_move bc_tmps]. rewrite (TB t p LT). destruct (is_const p) eqn:IC.
      * apply is_const_ev. exact IC.
      * rewrite ev_var, rho_atmp. cbn [anchor_of a_tmps bc_move bc_tmps]. rewrite (TB t p LT). symmetry. apply ev_red.
  - intros k ND. cbn [anchor_of a_ti a_tb a_ptr bc_move bc_ptr bc_tape ir_move ir_tape]. rewrite PB, (SAME k ND). reflexivity.
  - intros q IN. cbn [moved s_nz] in IN. destruct IN.
Qed.

(** ** one straight-line region on both sides *)
Lemma region_sound : forall A st si sb pre seg st1 rest, Rel A st si sb ->
  forallb is_simple pre = true -> sym_region w pre seg st = Some st1 ->
  (forall j, (j < length seg)%nat -> code_at code (bc_pc sb + Z.of_nat j) = nth_error seg j) ->
  (exists si1 sb1, (forall f, ir_exec w e false (length pre + f) (pre ++ rest) si = ir_exec w e false f rest si1)
       /\ reach sb sb1 /\ Rel A st1 si1 sb1 /\ bc_pc sb1 = bc_pc sb + Z.of_nat (length seg))
  \/ (exists si', (forall f, ir_exec w e false (length pre + f) (pre ++ rest) si = Stopped si') /\ reach_stop sb (ir_io si')).
Proof.
  intros A st si sb pre seg st1 rest R SP H AT. unfold sym_region in H.
  destruct (sym_ir w pre st) as [sti evi] eqn:SI. destruct (sym_bc w seg st) as [[stb evb]|] eqn:SB; [|discriminate].
  destruct (ev_eq w evi evb && (s_n sti =? s_n stb)) eqn:C; [|discriminate]. injection H as <-.
  apply andb_prop in C. destruct C as [EV NN]. apply Z.eqb_eq in NN.
  pose proof R as (RI0 & RB0 & IO & AG & NZ).
  pose proof (sym_ir_sound pre SP A st si sti evi rest RI0 SI) as HI.
  destruct (sym_ir_frame _ _ _ _ SI) as (FI1 & FI2 & FI3 & FI4).
  rewrite (ev_eq_sound A _ _ EV), IO in HI.
  pose proof (sym_bc_sound seg A st sb stb evb RB0 SB AT) as HB.
  destruct (io_run (map (cev A) evb) (bc_io sb)) as [io' [|]] eqn:RUN.
  - left. destruct HI as (si1 & E1 & I1 & R1). destruct HB as (sb1 & E2 & I2 & R2 & P2 & G1 & G2 & G3).
    exists si1, sb1. split; [exact E1|]. split; [apply (reach_steps (length seg)); exact E2|]. split; [|exact P2].
    split; [apply (RI_ext A sti _ si1 R1); cbn; congruence|].
    split; [apply (RB_ext A stb _ sb1 R2); cbn; congruence|].
    split; [congruence|]. split; [exact AG|exact NZ].
  - right. destruct HI as (si1 & E1 & I1). destruct HB as (sb1 & E2 & I2). exists si1. split; [exact E1|].
    exists (length seg + 0)%nat, sb1. split; [apply E2|congruence].
Qed.

(** ** the relation only looks at tape, pointer, I/O state and temporaries *)
Lemma Rel_ext : forall A st si sb si' sb', Rel A st si sb ->
  ir_tape si' = ir_tape si -> ir_ptr si' = ir_ptr si -> ir_io si' = ir_io si ->
  bc_tape sb' = bc_tape sb -> bc_ptr sb' = bc_ptr sb -> bc_io sb' = bc_io sb -> bc_tmps sb' = bc_tmps sb ->
  Rel A st si' sb'.
Proof.
  intros A st si sb si' sb' ((PI & IPI & NI & CI) & (PB & IPB & NB & CB & TB) & IO & AG & NZ) E1 E2 E3 E4 E5 E6 E7.
  split; [split; [congruence|split; [rewrite E3; exact IPI|split; [exact NI|intros k; rewrite E1; apply CI]]]|].
  split; [split; [congruence|split; [rewrite E6; exact IPB|split; [exact NB|split; [intros k; rewrite E4; apply CB|intros t p L; rewrite E7; apply (TB t p L)]]]]|].
  split; [congruence|]. split; [exact AG|exact NZ].
Qed.

Lemma anchor_ext : forall si sb si' sb',
  ir_tape si' = ir_tape si -> bc_tape sb' = bc_tape sb -> bc_ptr sb' = bc_ptr sb -> bc_io sb' = bc_io sb ->
  bc_tmps sb' = bc_tmps sb -> anchor_of si' sb' = anchor_of si sb.
Proof. intros si sb si' sb' E1 E2 E3 E4 E5. unfold anchor_of. rewrite E1, E2, E3, E4, E5. reflexivity. Qed.

Definition SimC (o : outcome irst) (sb : bcst) (pc' : Z) (st' : sst) : Prop :=
  match o with
  | Done si' => exists A' sb', reach sb sb' /\ bc_pc sb' = pc' /\ Rel A' st' si' sb'
  | Stopped si' => reach_stop sb (ir_io si')
  | _ => True
  end.

Lemma SimC_reach : forall o sb sb1 pc' st', reach sb sb1 -> SimC o sb1 pc' st' -> SimC o sb pc' st'.
Proof.
  intros o sb sb1 pc' st' RE H. destruct o as [s|s|s|p s|s]; cbn [SimC] in *; try exact I.
  - destruct H as (A' & sb' & R1 & P & RL). exists A', sb'. split; [exact (reach_trans _ _ _ RE R1)|split; assumption].
  - exact (reach_then_stop _ _ _ RE H).
Qed.

(** ** control instructions of the bytecode *)
Lemma step_brz : forall s c off, code_at code (bc_pc s) = Some (BrZ c off) ->
  reach s (if bc_mem s c =? 0 then bc_set_pc s (bc_pc s + off) else next s).
Proof.
  intros s c off CA. destruct (bexec_at 0 s _ CA) as (_ & NL & FE). apply (reach_steps 1). intros f.
  cbn [plus bc_exec]. rewrite NL, FE. destruct (bc_mem s c =? 0); reflexivity.
Qed.
Lemma step_brnz : forall s c off, code_at code (bc_pc s) = Some (BrNZ c off) ->
  reach s (if bc_mem s c =? 0 then next s else bc_set_pc s (bc_pc s + off)).
Proof.
  intros s c off CA. destruct (bexec_at 0 s _ CA) as (_ & NL & FE). apply (reach_steps 1). intros f.
  cbn [plus bc_exec]. rewrite NL, FE. destruct (bc_mem s c =? 0); reflexivity.
Qed.
Lemma step_mov : forall s sh, code_at code (bc_pc s) = Some (MovP sh) -> reach s (next (bc_move s sh)).
Proof.
  intros s sh CA. destruct (bexec_at 0 s _ CA) as (_ & NL & FE). apply (reach_steps 1). intros f.
  cbn [plus bc_exec]. rewrite NL, FE. reflexivity.
Qed.

Lemma Rel_mem : forall A st si sb k, Rel A st si sb -> agree w st k = true -> ir_read si k = bc_mem sb k.
Proof.
  intros A st si sb k R AGk. pose proof R as ((PI & _ & _ & CI) & (PB & _ & _ & CB & _) & _).
  unfold ir_read, bc_mem. rewrite PI, PB, CI, CB. apply agree_sound. exact AGk.
Qed.

Lemma ir_read_red : forall A st si sb k, Rel A st si sb -> ir_read si k mod M = ir_read si k.
Proof. intros A st si sb k ((PI & _ & _ & CI) & _). unfold ir_read. rewrite PI, CI. apply ev_red. Qed.

(** the fact added at the head of a loop body *)
Lemma head_fact : forall si sb f cond, Rel (anchor_of si sb) (st_of_facts f) si sb -> ir_read si cond <> 0 ->
  Rel (anchor_of si sb) (add_nz (st_of_facts f) (e_var (if memz cond (f_d f) then axi cond else acell cond))) si sb.
Proof.
  intros si sb f cond R NZc. pose proof R as (RI0 & RB0 & IO & AG & NZ).
  split; [exact RI0|]. split; [exact RB0|]. split; [exact IO|]. split; [exact AG|].
  intros p IN. cbn [add_nz s_nz] in IN. destruct IN as [<-|IN]; [|apply NZ; exact IN].
  pose proof (ir_read_red _ _ _ _ cond R) as RED.
  destruct RI0 as (PI & _). cbn [anchor_of a_ptr] in PI.
  destruct (memz cond (f_d f)) eqn:MD; rewrite ev_var.
  - rewrite rho_axi. cbn [anchor_of a_ti a_ptr]. rewrite <- PI. fold (ir_read si cond). rewrite RED. exact NZc.
  - rewrite rho_acell. cbn [anchor_of a_tb a_ptr]. specialize (AG cond MD). cbn [anchor_of a_ti a_tb a_ptr] in AG.
    rewrite <- AG, <- PI. fold (ir_read si cond). rewrite RED. exact NZc.
Qed.

Lemma ir_move_0 : forall s, ir_move s 0 = s.
Proof. intros [t p i b]. unfold ir_move. cbn. rewrite Z.add_0_r. reflexivity. Qed.

Lemma after_move_sound : forall pc2 stb shift pc3 stb' A s2 sb2,
  after_move w code pc2 stb shift = Some (pc3, stb') -> Rel A stb s2 sb2 -> bc_pc sb2 = pc2 ->
  exists A3 sb3, reach sb2 sb3 /\ bc_pc sb3 = pc3 /\ Rel A3 stb' (ir_move s2 shift) sb3.
Proof.
  intros pc2 stb shift pc3 stb' A s2 sb2 H R P. unfold after_move in H. destruct (shift =? 0) eqn:S0.
  - apply Z.eqb_eq in S0. subst shift. injection H as <- <-. exists A, sb2. rewrite ir_move_0.
    split; [apply reach_refl|]. split; [exact P|exact R].
  - destruct (code_at code pc2) as [[| | sh | | | | | | | |]|] eqn:CA; try discriminate.
    destruct (sh =? shift) eqn:ES; [|discriminate]. apply Z.eqb_eq in ES. subst sh. injection H as <- <-.
    rewrite <- P in CA. exists (anchor_of (ir_move s2 shift) (bc_move sb2 shift)), (next (bc_move sb2 shift)).
    split; [apply step_mov; exact CA|]. split; [cbn; lia|].
    apply (Rel_ext _ _ (ir_move s2 shift) (bc_move sb2 shift)); try reflexivity. apply (moved_sound A). exact R.
Qed.

Lemma ir_loop_unfold : forall f cond shift body once rest s,
  ir_exec w e false (S f) (ILoop cond shift body once :: rest) s =
  if ir_read s cond =? 0 then ir_exec w e false f rest s
  else match ir_exec w e false f body s with
       | Stopped s' => Stopped s'
       | OutOfFuel s' => OutOfFuel s'
       | Errored p s' => Errored p s'
       | Done s' | Interrupted s' => ir_exec w e false f (ILoop cond shift body once :: rest) (ir_move s' shift)
       end.
Proof. reflexivity. Qed.

Lemma ir_if_unfold : forall f cond shift body rest s,
  ir_exec w e false (S f) (IIf cond shift body :: rest) s =
  if ir_read s cond =? 0 then ir_exec w e false f rest s
  else match ir_exec w e false f body s with
       | Stopped s' => Stopped s'
       | OutOfFuel s' => OutOfFuel s'
       | Errored p s' => Errored p s'
       | Done s' | Interrupted s' => ir_exec w e false f rest (ir_move s' shift)
       end.
Proof. reflexivity. Qed.

Section Loop.
Variables (cond shift : Z) (body rest' : list instr) (once : bool).
Variables (head back : Z) (inv exitf : facts).
Variables (pc2 pc' : Z) (stb stb' st' : sst).
Notation fi := (st_of_facts inv).
Notation ent := (add_nz (st_of_facts inv) (e_var (if memz cond (f_d inv) then axi cond else acell cond))).
Notation LOOP := (ILoop cond shift body once :: rest').
Hypothesis BODY : forall f A si sb, Rel A ent si sb -> bc_pc sb = head -> SimC (ir_exec w e false f body si) sb pc2 stb.
Hypothesis REST : forall f A si sb, Rel A (if once then once_exit w stb' cond else st_of_facts exitf) si sb -> bc_pc sb = back + 1 ->
  SimC (ir_exec w e false f rest' si) sb pc' st'.
Hypothesis ENTX : once = true \/ entails w (once_exit w stb' cond) exitf = true.
Hypothesis MOVE : after_move w code pc2 stb shift = Some (back, stb').
Hypothesis BACKI : exists off, code_at code back = Some (BrNZ cond off) /\ back + off = head.
Hypothesis AGB : agree w stb' cond = true.
Hypothesis ENT : entails w stb' inv = true.

Definition loop_cont (f : nat) (si : irst) : outcome irst :=
  match ir_exec w e false f body si with
  | Stopped s' => Stopped s'
  | OutOfFuel s' => OutOfFuel s'
  | Errored p s' => Errored p s'
  | Done s' | Interrupted s' => ir_exec w e false f LOOP (ir_move s' shift)
  end.

Lemma head_from_back : forall f,
  (forall A si sb, Rel A stb' si sb -> bc_pc sb = back -> SimC (ir_exec w e false f LOOP si) sb pc' st') ->
  forall si sb, Rel (anchor_of si sb) fi si sb -> bc_pc sb = head -> ir_read si cond <> 0 ->
  SimC (loop_cont f si) sb pc' st'.
Proof.
  intros f BK si sb R P NZc. unfold loop_cont.
  pose proof (BODY f _ si sb (head_fact si sb inv cond R NZc) P) as HB.
  pose proof (ir_unlimited_outcomes w e f body si) as UN.
  destruct (ir_exec w e false f body si) as [s2|s2|s2|p s2|s2]; cbn [SimC] in *; try exact I; try contradiction.
  - destruct HB as (A2 & sb2 & RE & P2 & R2).
    destruct (after_move_sound _ _ _ _ _ A2 s2 sb2 MOVE R2 P2) as (A3 & sb3 & RE3 & P3 & R3).
    apply (SimC_reach _ sb sb3); [exact (reach_trans _ _ _ RE RE3)|]. apply (BK A3); assumption.
  - exact HB.
Qed.

Lemma back_sound : forall f A si sb, Rel A stb' si sb -> bc_pc sb = back -> SimC (ir_exec w e false f LOOP si) sb pc' st'.
Proof.
  induction f as [|f IH]; intros A si sb R P; [exact I|].
  rewrite ir_loop_unfold. destruct BACKI as (off & CA & TG). rewrite <- P in CA.
  pose proof (step_brnz sb cond off CA) as ST. rewrite <- (Rel_mem A stb' si sb cond R AGB) in ST.
  pose proof (entails_sound A stb' si sb inv R ENT) as RA.
  destruct (ir_read si cond =? 0) eqn:Z0.
  - apply (SimC_reach _ sb (next sb) _ _ ST).
    assert (RX : Rel A (once_exit w stb' cond) si sb).
    { unfold once_exit. destruct (nonzero_in w stb' (cell_i stb' cond)) eqn:NZC; [|exact R].
      exfalso. apply (nonzero_in_sound A stb' si sb _ R NZC). destruct R as (RI1 & _).
      rewrite <- (RI_read A stb' si cond RI1). apply Z.eqb_eq. exact Z0. }
    destruct once eqn:ON.
    + apply (REST f A); [|cbn; lia]. apply (Rel_ext A _ si sb); try reflexivity. exact RX.
    + destruct ENTX as [EX|EX]; [discriminate|].
      apply (REST f (anchor_of si sb)); [|cbn; lia]. apply (Rel_ext _ _ si sb); try reflexivity.
      apply (entails_sound A _ si sb exitf RX EX).
  - apply (SimC_reach _ sb (bc_set_pc sb (bc_pc sb + off)) _ _ ST).
    apply (head_from_back f IH).
    + rewrite (anchor_ext si sb si (bc_set_pc sb (bc_pc sb + off))) by reflexivity.
      apply (Rel_ext _ fi si sb); try reflexivity. exact RA.
    + cbn. lia.
    + apply Z.eqb_neq. exact Z0.
Qed.
End Loop.

(** ** fused scans *)
Lemma scan_exit : forall s c sh, code_at code (bc_pc s) = Some (Scan c sh) -> (bc_mem s c =? 0) = true -> reach s (next s).
Proof.
  intros s c sh CA Z0. destruct (bexec_at 0 s _ CA) as (_ & NL & FE). apply (reach_steps 1). intros f.
  cbn [plus bc_exec andb bc_scan]. rewrite NL, FE, Z0. reflexivity.
Qed.

Lemma bexec_scan : forall s c sh f, code_at code (bc_pc s) = Some (Scan c sh) ->
  bexec (S f) s = match bc_scan (S f) c sh s with Some s' => bexec f (next s') | None => OutOfFuel s end.
Proof.
  intros s c sh f CA. destruct (bexec_at 0 s _ CA) as (_ & NL & FE). cbn [bc_exec andb]. rewrite NL, FE. reflexivity.
Qed.

Lemma scan_unroll : forall s c sh, code_at code (bc_pc s) = Some (Scan c sh) -> (bc_mem s c =? 0) = false ->
  reach s (bc_move s sh).
Proof.
  intros s c sh CA NZ.
  assert (CA' : code_at code (bc_pc (bc_move s sh)) = Some (Scan c sh)) by exact CA.
  split.
  - exists 1%nat. intros f o H T. destruct f as [|f]; [cbn in H; subst o; contradiction|].
    rewrite (bexec_scan _ c sh f CA') in H.
    change (1 + S f)%nat with (S (S f)). rewrite (bexec_scan _ c sh (S f) CA).
    change (bc_scan (S (S f)) c sh s) with (if bc_mem s c =? 0 then Some s else bc_scan (S f) c sh (bc_move s sh)).
    rewrite NZ.
    destruct (bc_scan (S f) c sh (bc_move s sh)) as [s'|] eqn:SC; [|subst o; contradiction].
    apply (bexec_mono f _ _ H T). lia.
  - intros g o H T. exists g. split; [lia|]. destruct g as [|g]; [cbn in H; subst o; contradiction|].
    rewrite (bexec_scan _ c sh g CA) in H. rewrite (bexec_scan _ c sh g CA').
    change (bc_scan (S g) c sh s) with (if bc_mem s c =? 0 then Some s else bc_scan g c sh (bc_move s sh)) in H.
    rewrite NZ in H.
    destruct (bc_scan g c sh (bc_move s sh)) as [s'|] eqn:SC; [|subst o; contradiction].
    rewrite (bc_scan_mono _ _ _ _ _ SC (S g) ltac:(lia)). exact H.
Qed.

Lemma all_agree_filter : forall st, all_agree w st = true -> filter (fun k => negb (agree w st k)) (TV.keys st) = [].
Proof.
  intros st H. unfold all_agree in H. rewrite forallb_forall in H.
  induction (TV.keys st) as [|k l IH]; [reflexivity|]. cbn [filter].
  rewrite (H k (or_introl eq_refl)). cbn [negb]. apply IH. intros x IN. apply H. right. exact IN.
Qed.

Lemma moved_shift_irrelevant : forall st s s', all_agree w st = true -> moved w st s = moved w st s'.
Proof. intros st s s' H. unfold moved. rewrite (all_agree_filter st H). reflexivity. Qed.

Lemma moved_form : forall st s, all_agree w st = true ->
  moved w st s = {| s_ci := []; s_cb := []; s_d := [];
                    s_t := map (fun tp => (fst tp, if is_const (snd tp) then snd tp else e_var (atmp (fst tp)))) (s_t st);
                    s_nz := []; s_n := 0 |}.
Proof. intros st s H. unfold moved. rewrite (all_agree_filter st H). reflexivity. Qed.

Lemma moved_idem : forall st s, all_agree w st = true -> moved w (moved w st s) s = moved w st s.
Proof.
  intros st s H. rewrite (moved_form st s H). unfold moved. cbn [TV.keys s_ci s_cb s_d s_t map app filter]. f_equal.
  rewrite map_map. apply map_ext. intros [t p]. cbn [fst snd]. destruct (is_const p) eqn:IC; [rewrite IC; reflexivity|reflexivity].
Qed.

Lemma moved_keys : forall st s, all_agree w st = true -> TV.keys (moved w st s) = [].
Proof. intros st s H. unfold TV.keys, moved. cbn [s_ci s_cb s_d]. rewrite (all_agree_filter st H). reflexivity. Qed.

Section ScanLoop.
Variables (cond shift : Z) (rest' : list instr) (once : bool) (pc1 pc' : Z) (st1 st' : sst).
Notation LOOP := (ILoop cond shift [] once :: rest').
Hypothesis CAS : code_at code pc1 = Some (Scan cond shift).
Hypothesis AGC : agree w st1 cond = true.
Hypothesis REST : forall f A si sb, Rel A (if shift =? 0 then st1 else moved w st1 shift) si sb -> bc_pc sb = pc1 + 1 ->
  SimC (ir_exec w e false f rest' si) sb pc' st'.

Lemma scan0_sound : shift = 0 -> forall f A si sb, Rel A st1 si sb -> bc_pc sb = pc1 ->
  SimC (ir_exec w e false f LOOP si) sb pc' st'.
Proof.
  intros S0. induction f as [|f IH]; intros A si sb R P; [exact I|].
  rewrite ir_loop_unfold. rewrite <- P in CAS. rewrite (Rel_mem A st1 si sb cond R AGC).
  destruct (bc_mem sb cond =? 0) eqn:Z0.
  - apply (SimC_reach _ sb (next sb) _ _ (scan_exit sb cond shift CAS Z0)).
    apply (REST f A); [|cbn; lia]. rewrite S0. cbn. apply (Rel_ext A st1 si sb); try reflexivity. exact R.
  - destruct f as [|f0]; [exact I|]. cbn [ir_exec]. rewrite S0, ir_move_0.
    rewrite S0 in IH. apply (IH A si sb R). rewrite P. reflexivity.
Qed.

Hypothesis ALL : all_agree w st1 = true.

Lemma scan_start : forall A si sb, Rel A st1 si sb -> Rel (anchor_of si sb) (moved w st1 shift) si sb.
Proof.
  intros A si sb R. pose proof (moved_sound A st1 si sb 0 R) as H. rewrite ir_move_0 in H.
  rewrite (moved_shift_irrelevant st1 shift 0 ALL).
  rewrite (anchor_ext si sb si (bc_move sb 0)) in H by (try reflexivity; cbn; lia).
  apply (Rel_ext _ _ si (bc_move sb 0)); try reflexivity; [exact H|cbn; lia].
Qed.

Hypothesis SNZ : shift <> 0.

Lemma scanN_sound : forall f A si sb, Rel A (moved w st1 shift) si sb -> bc_pc sb = pc1 ->
  SimC (ir_exec w e false f LOOP si) sb pc' st'.
Proof.
  induction f as [|f IH]; intros A si sb R P; [exact I|].
  rewrite ir_loop_unfold. rewrite <- P in CAS.
  assert (EQ : ir_read si cond = bc_mem sb cond).
  { pose proof R as ((PI & _) & (PB & _) & _). unfold ir_read, bc_mem. rewrite PI, PB.
    apply (same_value A _ si sb cond R). right. rewrite (moved_keys st1 shift ALL). intros []. }
  rewrite EQ. destruct (bc_mem sb cond =? 0) eqn:Z0.
  - apply (SimC_reach _ sb (next sb) _ _ (scan_exit sb cond shift CAS Z0)).
    apply (REST f A); [|cbn; lia]. destruct (shift =? 0) eqn:S0; [apply Z.eqb_eq in S0; contradiction|].
    apply (Rel_ext A _ si sb); try reflexivity. exact R.
  - destruct f as [|f0]; [exact I|]. change (ir_exec w e false (S f0) [] si) with (Done si).
    apply (SimC_reach _ sb (bc_move sb shift) _ _ (scan_unroll sb cond shift CAS Z0)).
    apply (IH (anchor_of (ir_move si shift) (bc_move sb shift))); [|cbn; rewrite <- P; reflexivity].
    rewrite <- (moved_idem st1 shift ALL). apply (moved_sound A). exact R.
Qed.
End ScanLoop.

(** ** the main induction over the checker *)
Ltac split_ands :=
  repeat match goal with
         | H : _ && _ = true |- _ => apply andb_prop in H; destruct H
         end.

Lemma is_nil_spec : forall (X : Type) (l : list X), is_nil l = true -> l = [].
Proof. intros X [|x l] H; [reflexivity|discriminate]. Qed.

Lemma tv_block_sound : forall n fuse insts pc stop st cs pc' st' cs',
  tv_block n w fuse code insts pc stop st cs = Some (pc', st', cs') -> 0 <= pc ->
  forall f A si sb, Rel A st si sb -> bc_pc sb = pc -> SimC (ir_exec w e false f insts si) sb pc' st'.
Proof.
  induction n as [|n IH]; intros fuse insts pc stop st cs pc' st' cs' H PC0 f A si sb R P; [discriminate|].
  cbn [tv_block] in H.
  destruct (split_simple insts) as [pre rest] eqn:SS.
  destruct (split_simple_spec _ _ _ SS) as (EI & SP & HR).
  remember (bc_segment code pc stop (next_head fuse rest cs)) as seg eqn:SEG.
  destruct (sym_region w pre seg st) as [st1|] eqn:SR; [|discriminate].
  assert (K : forall o, ir_exec w e false (length pre + f) (pre ++ rest) si = o -> SimC o sb pc' st').
  { intros o EO.
    assert (AT : forall j, (j < length seg)%nat -> code_at code (bc_pc sb + Z.of_nat j) = nth_error seg j).
    { intros j J. rewrite P, SEG. apply segment_at; [exact PC0|rewrite <- SEG; exact J]. }
    destruct (region_sound A st si sb pre seg st1 rest R SP SR AT) as [(si1 & sb1 & E1 & RE & R1 & P1)|(si' & E1 & RS)].
    2:{ rewrite E1 in EO. subst o. exact RS. }
    rewrite E1 in EO. subst o. apply (SimC_reach _ sb sb1 _ _ RE). rewrite P in P1.
    set (pc1 := pc + Z.of_nat (length seg)) in *.
    assert (PC1 : 0 <= pc1) by (unfold pc1; lia).
    clear E1 RE AT R P SR si sb.
    destruct rest as [|i rest'].
    { injection H as <- <- <-. destruct f as [|f]; [exact I|]. cbn [ir_exec SimC].
      exists A, sb1. split; [apply reach_refl|]. split; [exact P1|exact R1]. }
    destruct i as [src|dst|calcs|cond shift body once|cond shift body]; try discriminate.
    - (* loop *)
      destruct (code_at code pc1) as [b|] eqn:CB; [|discriminate].
      destruct (fuse && is_nil body) eqn:FN.
      + (* fused scan *)
        apply andb_prop in FN. destruct FN as [_ NB]. apply is_nil_spec in NB. subst body.
        destruct b as [|c sh| | | | | | | | |]; try discriminate.
        destruct ((c =? cond) && (sh =? shift) && (pc1 <? stop) && agree w st1 cond && ((shift =? 0) || all_agree w st1)) eqn:CK; [|discriminate].
        split_ands.
        repeat match goal with Hx : (_ =? _) = true |- _ => apply Z.eqb_eq in Hx end. subst c sh.
        rewrite <- P1 in CB.
        assert (REST : forall f A si sb, Rel A (if shift =? 0 then st1 else moved w st1 shift) si sb -> bc_pc sb = bc_pc sb1 + 1 ->
                  SimC (ir_exec w e false f rest' si) sb pc' st').
        { intros f0 A0 si0 sb0 R0 P0. apply (IH _ _ _ _ _ _ _ _ _ H ltac:(lia) f0 A0 si0 sb0 R0). rewrite P0, P1. reflexivity. }
        match goal with Hx : agree w st1 cond = true |- _ => pose proof Hx as AGC end.
        destruct (Z.eq_dec shift 0) as [S0|SNZ].
        * exact (scan0_sound cond shift rest' once (bc_pc sb1) pc' st1 st' CB AGC REST S0 f A si1 sb1 R1 eq_refl).
        * assert (ALL : all_agree w st1 = true).
          { match goal with Hx : (_ || _) = true |- _ => apply orb_prop in Hx; destruct Hx as [Hx|Hx]; [apply Z.eqb_eq in Hx; contradiction|exact Hx] end. }
          exact (scanN_sound cond shift rest' once (bc_pc sb1) pc' st1 st' CB REST ALL SNZ f (anchor_of si1 sb1) si1 sb1
                   (scan_start shift st1 ALL A si1 sb1 R1) eq_refl).
      + (* general loop *)
        destruct cs as [|[head back inv exitf|?] cs1]; try discriminate.
        match type of H with (if ?c then _ else _) = _ => destruct c eqn:CK; [|discriminate] end.
        destruct (tv_block n w fuse code body head back _ cs1) as [[[pc2 stb] cs2]|] eqn:TB; [|discriminate].
        destruct (after_move w code pc2 stb shift) as [[pc3 stb']|] eqn:AM; [|discriminate].
        match type of H with (if ?c then _ else _) = _ => destruct c eqn:CK2; [|discriminate] end.
        split_ands.
        repeat match goal with Hx : (_ <=? _) = true |- _ => apply Z.leb_le in Hx end.
        match goal with Hx : (pc3 =? back) = true |- _ => apply Z.eqb_eq in Hx; subst pc3 end.
        assert (BODY : forall f A si sb, Rel A (add_nz (st_of_facts inv) (e_var (if memz cond (f_d inv) then axi cond else acell cond))) si sb ->
                  bc_pc sb = head -> SimC (ir_exec w e false f body si) sb pc2 stb).
        { intros f0 A0 si0 sb0 R0 P0. apply (IH _ _ _ _ _ _ _ _ _ TB ltac:(destruct once; split_ands; repeat match goal with Hx : (_ =? _) = true |- _ => apply Z.eqb_eq in Hx end; lia) f0 A0 si0 sb0 R0 P0). }
        assert (REST : forall f A si sb, Rel A (if once then once_exit w stb' cond else st_of_facts exitf) si sb -> bc_pc sb = back + 1 ->
                  SimC (ir_exec w e false f rest' si) sb pc' st').
        { intros f0 A0 si0 sb0 R0 P0. apply (IH _ _ _ _ _ _ _ _ _ H ltac:(destruct once; split_ands; repeat match goal with Hx : (_ =? _) = true |- _ => apply Z.eqb_eq in Hx end; lia) f0 A0 si0 sb0 R0 P0). }
        assert (BACKI : exists off, code_at code back = Some (BrNZ cond off) /\ back + off = head).
        { destruct (code_at code back) as [[| | | | | |c off| | | |]|]; try discriminate. split_ands.
          repeat match goal with Hx : (_ =? _) = true |- _ => apply Z.eqb_eq in Hx end. subst c. exists off. split; [reflexivity|assumption]. }
        assert (ENTX : once = true \/ entails w (once_exit w stb' cond) exitf = true).
        { match goal with Hx : (once || entails w (once_exit w stb' cond) exitf) = true |- _ =>
            apply orb_prop in Hx; destruct Hx as [Hx|Hx]; [left|right]; exact Hx end. }
        pose proof (back_sound cond shift body rest' once head back inv exitf pc2 pc' stb stb' st' BODY REST ENTX AM BACKI ltac:(assumption) ltac:(assumption)) as BK.
        pose proof (entails_sound A st1 si1 sb1 inv R1 ltac:(assumption)) as RA.
        destruct f as [|f]; [exact I|]. rewrite ir_loop_unfold.
        destruct once.
        * (* no guard: the condition is known to be non-zero *)
          split_ands. match goal with Hx : (pc1 =? head) = true |- _ => apply Z.eqb_eq in Hx end.
          assert (NZc : ir_read si1 cond <> 0).
          { pose proof R1 as (RI1 & _). rewrite (RI_read A st1 si1 cond RI1).
            match goal with Hx : nonzero_in w st1 _ = true |- _ => apply (nonzero_in_sound A st1 si1 sb1 _ R1 Hx) end. }
          destruct (ir_read si1 cond =? 0) eqn:Z0; [apply Z.eqb_eq in Z0; contradiction|].
          apply (head_from_back cond shift body rest' true head back inv pc2 pc' stb stb' st' BODY AM f (BK f) si1 sb1 RA ltac:(lia) NZc).
        * split_ands. destruct b as [| | | | |c off| | | | |]; try discriminate. split_ands.
          repeat match goal with Hx : (_ =? _) = true |- _ => apply Z.eqb_eq in Hx end. subst c.
          rewrite <- P1 in CB. pose proof (step_brz sb1 cond off CB) as ST.
          rewrite <- (Rel_mem A st1 si1 sb1 cond R1 ltac:(assumption)) in ST.
          destruct (ir_read si1 cond =? 0) eqn:Z0.
          -- apply (SimC_reach _ sb1 _ _ _ ST). apply (REST f (anchor_of si1 sb1)); [|cbn; lia].
             apply (Rel_ext _ _ si1 sb1); try reflexivity.
             match goal with Hx : (false || entails w st1 exitf) = true |- _ => cbn [orb] in Hx; apply (entails_sound A st1 si1 sb1 exitf R1 Hx) end.
          -- apply (SimC_reach _ sb1 _ _ _ ST).
             apply (head_from_back cond shift body rest' false head back inv pc2 pc' stb stb' st' BODY AM f (BK f)).
             ++ rewrite (anchor_ext si1 sb1 si1 (next sb1)) by reflexivity. apply (Rel_ext _ _ si1 sb1); try reflexivity. exact RA.
             ++ cbn. lia.
             ++ apply Z.eqb_neq. exact Z0.
    - (* if *)
      destruct (code_at code pc1) as [[| | | | |c off| | | | |]|] eqn:CB; try discriminate.
      destruct cs as [|[?|join] cs1]; try discriminate.
      match type of H with (if ?c then _ else _) = _ => destruct c eqn:CK; [|discriminate] end.
      destruct (tv_block n w fuse code body (pc1 + 1) (pc1 + off) _ cs1) as [[[pc2 stb] cs2]|] eqn:TB; [|discriminate].
      destruct (after_move w code pc2 stb shift) as [[pc3 stb']|] eqn:AM; [|discriminate].
      match type of H with (if ?c then _ else _) = _ => destruct c eqn:CK2; [|discriminate] end.
      split_ands.
      repeat match goal with Hx : (_ <=? _) = true |- _ => apply Z.leb_le in Hx end.
      repeat match goal with Hx : (_ =? _) = true |- _ => apply Z.eqb_eq in Hx end. subst c pc3.
      destruct f as [|f]; [exact I|]. rewrite ir_if_unfold.
      rewrite <- P1 in CB. pose proof (step_brz sb1 cond off CB) as ST.
      rewrite <- (Rel_mem A st1 si1 sb1 cond R1 ltac:(assumption)) in ST.
      destruct (ir_read si1 cond =? 0) eqn:Z0.
      + apply (SimC_reach _ sb1 _ _ _ ST).
        apply (IH _ _ _ _ _ _ _ _ _ H ltac:(lia) f (anchor_of si1 sb1)); [|cbn; lia].
        apply (Rel_ext _ _ si1 sb1); try reflexivity. apply (entails_sound A st1 si1 sb1 join R1). assumption.
      + apply (SimC_reach _ sb1 _ _ _ ST).
        assert (RE : Rel A (add_nz st1 (cell_b st1 cond)) si1 (next sb1)).
        { apply (Rel_ext A _ si1 sb1); try reflexivity. destruct R1 as (RI1 & RB1 & IO1 & AG1 & NZ1).
          split; [exact RI1|]. split; [exact RB1|]. split; [exact IO1|]. split; [exact AG1|].
          intros p IN. cbn [add_nz s_nz] in IN. destruct IN as [<-|IN]; [|apply NZ1; exact IN].
          rewrite <- (agree_sound A st1 cond ltac:(assumption)). rewrite <- (RI_read A st1 si1 cond RI1).
          apply Z.eqb_neq. exact Z0. }
        pose proof (IH _ _ _ _ _ _ _ _ _ TB ltac:(lia) f A si1 (next sb1) RE ltac:(cbn; lia)) as HB.
        pose proof (ir_unlimited_outcomes w e f body si1) as UN.
        destruct (ir_exec w e false f body si1) as [s2|s2|s2|p s2|s2]; cbn [SimC] in *; try exact I; try contradiction.
        * destruct HB as (A2 & sb2 & RE2 & P2 & R2).
          destruct (after_move_sound _ _ _ _ _ A2 s2 sb2 AM R2 P2) as (A3 & sb3 & RE3 & P3 & R3).
          apply (SimC_reach _ _ sb3); [exact (reach_trans _ _ _ RE2 RE3)|].
          apply (IH _ _ _ _ _ _ _ _ _ H ltac:(lia) f (anchor_of (ir_move s2 shift) sb3)); [|exact P3].
          apply (entails_sound A3 stb' _ sb3 join R3). assumption.
        * exact HB. }
  remember (ir_exec w e false f insts si) as o eqn:EO.
  destruct o as [s|s|s|p s|s]; try exact I.
  - apply K. rewrite <- EI. symmetry in EO. apply (ir_exec_mono w e f insts si _ EO I). lia.
  - apply K. rewrite <- EI. symmetry in EO. apply (ir_exec_mono w e f insts si _ EO I). lia.
Qed.

(** ** the converse: a terminating bytecode run forces the IR run to terminate *)
Definition btermN (g : nat) (s : bcst) : Prop := exists o, bexec g s = o /\ bterminal o.
Definition iterm (insts : list instr) (si : irst) : Prop :=
  exists f o, ir_exec w e false f insts si = o /\ iterminal o.

Lemma btermN_reach : forall g s s', reach s s' -> btermN g s -> exists g', (g' <= g)%nat /\ btermN g' s'.
Proof.
  intros g s s' (_ & B) (o & E & T). destruct (B g o E T) as (g' & L & E'). exists g'. split; [exact L|]. exists o. split; assumption.
Qed.
Lemma btermN_step : forall g s s', (forall f, bexec (S f) s = bexec f s') -> btermN g s -> exists g', (g' < g)%nat /\ btermN g' s'.
Proof.
  intros g s s' H (o & E & T). destruct (step_back s s' H g o E T) as (g' & L & E'). exists g'. split; [exact L|]. exists o. split; assumption.
Qed.
Lemma btermN_mono : forall g g' s, btermN g s -> (g <= g')%nat -> btermN g' s.
Proof. intros g g' s (o & E & T) L. exists o. split; [apply (bexec_mono g s o E T g' L)|exact T]. Qed.

Lemma iterm_nil : forall si, iterm [] si.
Proof. intros si. exists 1%nat, (Done si). split; [reflexivity|exact I]. Qed.

Lemma iterm_loop_zero : forall cond shift body once rest s, (ir_read s cond =? 0) = true -> iterm rest s ->
  iterm (ILoop cond shift body once :: rest) s.
Proof.
  intros cond shift body once rest s Z0 (f & o & E & T). exists (S f), o. split; [|exact T]. rewrite ir_loop_unfold, Z0. exact E.
Qed.

Lemma iterm_loop_step : forall cond shift body once rest s, (ir_read s cond =? 0) = false ->
  (exists f s', ir_exec w e false f body s = Stopped s') \/
  (exists f s2, ir_exec w e false f body s = Done s2 /\ iterm (ILoop cond shift body once :: rest) (ir_move s2 shift)) ->
  iterm (ILoop cond shift body once :: rest) s.
Proof.
  intros cond shift body once rest s NZ [(f & s' & E)|(f & s2 & E & (f2 & o & E2 & T))].
  - exists (S f), (Stopped s'). split; [|exact I]. rewrite ir_loop_unfold, NZ, E. reflexivity.
  - exists (S (f + f2)), o. split; [|exact T]. rewrite ir_loop_unfold, NZ.
    rewrite (ir_exec_mono w e f body s _ E I (f + f2)%nat ltac:(lia)).
    apply (ir_exec_mono w e f2 _ _ _ E2 T). lia.
Qed.

Lemma iterm_if : forall cond shift body rest s,
  ((ir_read s cond =? 0) = true /\ iterm rest s) \/
  ((ir_read s cond =? 0) = false /\
     ((exists f s', ir_exec w e false f body s = Stopped s') \/
      (exists f s2, ir_exec w e false f body s = Done s2 /\ iterm rest (ir_move s2 shift)))) ->
  iterm (IIf cond shift body :: rest) s.
Proof.
  intros cond shift body rest s [(Z0 & (f & o & E & T))|(NZ & [(f & s' & E)|(f & s2 & E & (f2 & o & E2 & T))])].
  - exists (S f), o. split; [|exact T]. rewrite ir_if_unfold, Z0. exact E.
  - exists (S f), (Stopped s'). split; [|exact I]. rewrite ir_if_unfold, NZ, E. reflexivity.
  - exists (S (f + f2)), o. split; [|exact T]. rewrite ir_if_unfold, NZ.
    rewrite (ir_exec_mono w e f body s _ E I (f + f2)%nat ltac:(lia)).
    apply (ir_exec_mono w e f2 _ _ _ E2 T). lia.
Qed.

Lemma iterm_body_cases : forall body s, iterm body s ->
  (exists f s', ir_exec w e false f body s = Stopped s') \/ (exists f s2, ir_exec w e false f body s = Done s2).
Proof.
  intros body s (f & o & E & T). destruct o as [s2|s2|s2|p s2|s2]; try contradiction; [right|left]; exists f, s2; exact E.
Qed.

Section LoopB.
Variables (cond shift : Z) (body rest' : list instr) (once : bool).
Variables (head back : Z) (inv exitf : facts).
Variables (pc2 pc' : Z) (stb stb' st' : sst).
Notation fi := (st_of_facts inv).
Notation ent := (add_nz (st_of_facts inv) (e_var (if memz cond (f_d inv) then axi cond else acell cond))).
Notation LOOP := (ILoop cond shift body once :: rest').
Hypothesis BODY : forall f A si sb, Rel A ent si sb -> bc_pc sb = head -> SimC (ir_exec w e false f body si) sb pc2 stb.
Hypothesis BODYB : forall g A si sb, Rel A ent si sb -> bc_pc sb = head -> btermN g sb -> iterm body si.
Hypothesis RESTB : forall g A si sb, Rel A (if once then once_exit w stb' cond else st_of_facts exitf) si sb -> bc_pc sb = back + 1 ->
  btermN g sb -> iterm rest' si.
Hypothesis ENTX : once = true \/ entails w (once_exit w stb' cond) exitf = true.
Hypothesis MOVE : after_move w code pc2 stb shift = Some (back, stb').
Hypothesis BACKI : exists off, code_at code back = Some (BrNZ cond off) /\ back + off = head.
Hypothesis AGB : agree w stb' cond = true.
Hypothesis ENT : entails w stb' inv = true.

Lemma head_back : forall g,
  (forall g' A si sb, (g' <= g)%nat -> Rel A stb' si sb -> bc_pc sb = back -> btermN g' sb -> iterm LOOP si) ->
  forall si sb, Rel (anchor_of si sb) fi si sb -> bc_pc sb = head -> ir_read si cond <> 0 -> btermN g sb ->
  (exists f s', ir_exec w e false f body si = Stopped s') \/
  (exists f s2, ir_exec w e false f body si = Done s2 /\ iterm LOOP (ir_move s2 shift)).
Proof.
  intros g BK si sb R P NZc BT.
  pose proof (head_fact si sb inv cond R NZc) as RE.
  destruct (iterm_body_cases body si (BODYB g _ si sb RE P BT)) as [S|(f & s2 & E)]; [left; exact S|]. right.
  exists f, s2. split; [exact E|].
  pose proof (BODY f _ si sb RE P) as HB. rewrite E in HB. cbn [SimC] in HB.
  destruct HB as (A2 & sb2 & RE2 & P2 & R2).
  destruct (after_move_sound _ _ _ _ _ A2 s2 sb2 MOVE R2 P2) as (A3 & sb3 & RE3 & P3 & R3).
  destruct (btermN_reach g sb sb3 (reach_trans _ _ _ RE2 RE3) BT) as (g3 & L3 & BT3).
  apply (BK g3 A3 _ sb3 L3 R3 P3 BT3).
Qed.

Lemma back_back : forall g A si sb, Rel A stb' si sb -> bc_pc sb = back -> btermN g sb -> iterm LOOP si.
Proof.
  induction g as [g IH] using lt_wf_ind. intros A si sb R P BT.
  destruct BACKI as (off & CA & TG). rewrite <- P in CA.
  destruct (bexec_at 0 sb _ CA) as (_ & NL & FE).
  pose proof (Rel_mem A stb' si sb cond R AGB) as EQ.
  pose proof (entails_sound A stb' si sb inv R ENT) as RA.
  destruct (ir_read si cond =? 0) eqn:Z0.
  - apply iterm_loop_zero; [exact Z0|].
    assert (ST : forall f, bexec (S f) sb = bexec f (next sb)).
    { intros f. cbn [bc_exec]. rewrite NL, FE. cbn [andb]. rewrite <- EQ, Z0. reflexivity. }
    destruct (btermN_step g sb (next sb) ST BT) as (g' & L & BT').
    assert (RX : Rel A (once_exit w stb' cond) si sb).
    { unfold once_exit. destruct (nonzero_in w stb' (cell_i stb' cond)) eqn:NZC; [|exact R].
      exfalso. apply (nonzero_in_sound A stb' si sb _ R NZC). destruct R as (RI1 & _).
      rewrite <- (RI_read A stb' si cond RI1). apply Z.eqb_eq. exact Z0. }
    destruct once eqn:ON.
    + apply (RESTB g' A si (next sb)); [|cbn; lia|exact BT']. apply (Rel_ext A _ si sb); try reflexivity. exact RX.
    + destruct ENTX as [EX|EX]; [discriminate|].
      apply (RESTB g' (anchor_of si sb) si (next sb)); [|cbn; lia|exact BT']. apply (Rel_ext _ _ si sb); try reflexivity.
      apply (entails_sound A _ si sb exitf RX EX).
  - apply iterm_loop_step; [exact Z0|].
    assert (ST : forall f, bexec (S f) sb = bexec f (bc_set_pc sb (bc_pc sb + off))).
    { intros f. cbn [bc_exec]. rewrite NL, FE. cbn [andb]. rewrite <- EQ, Z0. reflexivity. }
    destruct (btermN_step g sb _ ST BT) as (g' & L & BT').
    apply (head_back g') with (sb := bc_set_pc sb (bc_pc sb + off)).
    + intros g2 A2 si2 sb2 L2 R2 P2 BT2. apply (IH g2 ltac:(lia) A2 si2 sb2 R2 P2 BT2).
    + rewrite (anchor_ext si sb si (bc_set_pc sb (bc_pc sb + off))) by reflexivity.
      apply (Rel_ext _ fi si sb); try reflexivity. exact RA.
    + cbn. lia.
    + apply Z.eqb_neq. exact Z0.
    + exact BT'.
Qed.
End LoopB.

Section ScanB.
Variables (cond shift : Z) (rest' : list instr) (once : bool) (pc1 : Z) (st1 : sst).
Notation LOOP := (ILoop cond shift [] once :: rest').
Hypothesis CAS : code_at code pc1 = Some (Scan cond shift).
Hypothesis AGC : agree w st1 cond = true.
Hypothesis RESTB : forall g A si sb, Rel A (if shift =? 0 then st1 else moved w st1 shift) si sb -> bc_pc sb = pc1 + 1 ->
  btermN g sb -> iterm rest' si.

Lemma scan0_back : shift = 0 -> forall g A si sb, Rel A st1 si sb -> bc_pc sb = pc1 -> btermN g sb -> iterm LOOP si.
Proof.
  intros S0 g A si sb R P (o & E & T). rewrite <- P in CAS.
  destruct g as [|g]; [cbn in E; subst o; contradiction|].
  rewrite (bexec_scan _ cond shift g CAS) in E.
  pose proof (Rel_mem A st1 si sb cond R AGC) as EQ.
  destruct (bc_mem sb cond =? 0) eqn:Z0.
  - apply iterm_loop_zero; [rewrite EQ; exact Z0|]. cbn [bc_scan] in E. rewrite Z0 in E.
    apply (RESTB g A si (next sb)); [|cbn; lia|exists o; split; assumption].
    rewrite S0. cbn. apply (Rel_ext A st1 si sb); try reflexivity. exact R.
  - exfalso. rewrite S0 in E. rewrite (scan0_none (S g) cond sb Z0) in E. subst o. exact T.
Qed.

Hypothesis ALL : all_agree w st1 = true.
Hypothesis SNZ : shift <> 0.

Lemma scanN_back : forall k A si sb s', Rel A (moved w st1 shift) si sb -> bc_pc sb = pc1 ->
  bc_scan k cond shift sb = Some s' -> (forall g, btermN g (next s') -> exists g', btermN g' (next s')) ->
  (exists g, btermN g (next s')) -> iterm LOOP si.
Proof.
  induction k as [|k IH]; intros A si sb s' R P SC _ BT; [discriminate|].
  assert (EQ : ir_read si cond = bc_mem sb cond).
  { pose proof R as ((PI & _) & (PB & _) & _). unfold ir_read, bc_mem. rewrite PI, PB.
    apply (same_value A _ si sb cond R). right. rewrite (moved_keys st1 shift ALL). intros []. }
  cbn [bc_scan] in SC. destruct (bc_mem sb cond =? 0) eqn:Z0.
  - injection SC as <-. apply iterm_loop_zero; [rewrite EQ; exact Z0|]. destruct BT as (g & BT).
    apply (RESTB g A si (next sb)); [|cbn; lia|exact BT].
    destruct (shift =? 0) eqn:S0; [apply Z.eqb_eq in S0; contradiction|].
    apply (Rel_ext A _ si sb); try reflexivity. exact R.
  - apply iterm_loop_step; [rewrite EQ; exact Z0|]. right. exists 1%nat, si. split; [reflexivity|].
    apply (IH (anchor_of (ir_move si shift) (bc_move sb shift)) _ (bc_move sb shift) s'); [|cbn; exact P|exact SC|intros g H; exists g; exact H|exact BT].
    rewrite <- (moved_idem st1 shift ALL). apply (moved_sound A). exact R.
Qed.
End ScanB.

Lemma tv_block_back : forall n fuse insts pc stop st cs pc' st' cs',
  tv_block n w fuse code insts pc stop st cs = Some (pc', st', cs') -> 0 <= pc ->
  forall g A si sb, Rel A st si sb -> bc_pc sb = pc -> btermN g sb -> iterm insts si.
Proof.
  induction n as [|n IH]; intros fuse insts pc stop st cs pc' st' cs' H PC0 g A si sb R P BT; [discriminate|].
  pose proof H as HALL. cbn [tv_block] in H.
  destruct (split_simple insts) as [pre rest] eqn:SS.
  destruct (split_simple_spec _ _ _ SS) as (EI & SP & HR).
  remember (bc_segment code pc stop (next_head fuse rest cs)) as seg eqn:SEG.
  destruct (sym_region w pre seg st) as [st1|] eqn:SR; [|discriminate].
  assert (AT : forall j, (j < length seg)%nat -> code_at code (bc_pc sb + Z.of_nat j) = nth_error seg j).
  { intros j J. rewrite P, SEG. apply segment_at; [exact PC0|rewrite <- SEG; exact J]. }
  destruct (region_sound A st si sb pre seg st1 rest R SP SR AT) as [(si1 & sb1 & E1 & RE & R1 & P1)|(si' & E1 & RS)].
  2:{ exists (length pre + 0)%nat, (Stopped si'). split; [rewrite EI; apply E1|exact I]. }
  assert (LIFT : iterm rest si1 -> iterm insts si).
  { intros (f & o & E & T). exists (length pre + f)%nat, o. split; [rewrite EI, E1; exact E|exact T]. }
  apply LIFT. clear LIFT.
  destruct (btermN_reach g sb sb1 RE BT) as (g1 & L1 & BT1).
  rewrite P in P1. set (pc1 := pc + Z.of_nat (length seg)) in *.
  assert (PC1 : 0 <= pc1) by (unfold pc1; lia).
  clear E1 RE AT R P SR BT si sb L1 g HALL.
  destruct rest as [|i rest']; [apply iterm_nil|].
  destruct i as [src|dst|calcs|cond shift body once|cond shift body]; try discriminate.
  - (* loop *)
    destruct (code_at code pc1) as [b|] eqn:CB; [|discriminate].
    destruct (fuse && is_nil body) eqn:FN.
    + apply andb_prop in FN. destruct FN as [_ NB]. apply is_nil_spec in NB. subst body.
      destruct b as [|c sh| | | | | | | | |]; try discriminate.
      destruct ((c =? cond) && (sh =? shift) && (pc1 <? stop) && agree w st1 cond && ((shift =? 0) || all_agree w st1)) eqn:CK; [|discriminate].
      split_ands.
      repeat match goal with Hx : (_ =? _) = true |- _ => apply Z.eqb_eq in Hx end. subst c sh.
      rewrite <- P1 in CB.
      assert (RESTB : forall g A si sb, Rel A (if shift =? 0 then st1 else moved w st1 shift) si sb -> bc_pc sb = bc_pc sb1 + 1 ->
                btermN g sb -> iterm rest' si).
      { intros g0 A0 si0 sb0 R0 P0 B0. apply (IH _ _ _ _ _ _ _ _ _ H ltac:(lia) g0 A0 si0 sb0 R0); [rewrite P0, P1; reflexivity|exact B0]. }
      match goal with Hx : agree w st1 cond = true |- _ => pose proof Hx as AGC end.
      destruct (Z.eq_dec shift 0) as [S0|SNZ].
      * exact (scan0_back cond shift rest' once (bc_pc sb1) st1 CB AGC RESTB S0 g1 A si1 sb1 R1 eq_refl BT1).
      * assert (ALL : all_agree w st1 = true).
        { match goal with Hx : (_ || _) = true |- _ => apply orb_prop in Hx; destruct Hx as [Hx|Hx]; [apply Z.eqb_eq in Hx; contradiction|exact Hx] end. }
        destruct BT1 as (o & E & T). destruct g1 as [|g1]; [cbn in E; subst o; contradiction|].
        rewrite (bexec_scan _ cond shift g1 CB) in E.
        destruct (bc_scan (S g1) cond shift sb1) as [s'|] eqn:SC; [|subst o; contradiction].
        apply (scanN_back cond shift rest' once (bc_pc sb1) st1 RESTB ALL SNZ (S g1) (anchor_of si1 sb1) si1 sb1 s'
                 (scan_start shift st1 ALL A si1 sb1 R1) eq_refl SC).
        -- intros g0 H0. exists g0. exact H0.
        -- exists g1, o. split; assumption.
    + destruct cs as [|[head back inv exitf|?] cs1]; try discriminate.
      match type of H with (if ?c then _ else _) = _ => destruct c eqn:CK; [|discriminate] end.
      destruct (tv_block n w fuse code body head back _ cs1) as [[[pc2 stb] cs2]|] eqn:TB; [|discriminate].
      destruct (after_move w code pc2 stb shift) as [[pc3 stb']|] eqn:AM; [|discriminate].
      match type of H with (if ?c then _ else _) = _ => destruct c eqn:CK2; [|discriminate] end.
      split_ands.
      repeat match goal with Hx : (_ <=? _) = true |- _ => apply Z.leb_le in Hx end.
      match goal with Hx : (pc3 =? back) = true |- _ => apply Z.eqb_eq in Hx; subst pc3 end.
      assert (HEADPOS : 0 <= head /\ 0 <= back + 1).
      { destruct once; split_ands; repeat match goal with Hx : (_ =? _) = true |- _ => apply Z.eqb_eq in Hx end; lia. }
      assert (BODY : forall f A si sb, Rel A (add_nz (st_of_facts inv) (e_var (if memz cond (f_d inv) then axi cond else acell cond))) si sb ->
                bc_pc sb = head -> SimC (ir_exec w e false f body si) sb pc2 stb).
      { intros f0 A0 si0 sb0 R0 P0. apply (tv_block_sound _ _ _ _ _ _ _ _ _ _ TB ltac:(lia) f0 A0 si0 sb0 R0 P0). }
      assert (BODYB : forall g A si sb, Rel A (add_nz (st_of_facts inv) (e_var (if memz cond (f_d inv) then axi cond else acell cond))) si sb ->
                bc_pc sb = head -> btermN g sb -> iterm body si).
      { intros g0 A0 si0 sb0 R0 P0 B0. apply (IH _ _ _ _ _ _ _ _ _ TB ltac:(lia) g0 A0 si0 sb0 R0 P0 B0). }
      assert (RESTB : forall g A si sb, Rel A (if once then once_exit w stb' cond else st_of_facts exitf) si sb -> bc_pc sb = back + 1 ->
                btermN g sb -> iterm rest' si).
      { intros g0 A0 si0 sb0 R0 P0 B0. apply (IH _ _ _ _ _ _ _ _ _ H ltac:(lia) g0 A0 si0 sb0 R0 P0 B0). }
      assert (BACKI : exists off, code_at code back = Some (BrNZ cond off) /\ back + off = head).
      { destruct (code_at code back) as [[| | | | | |c off| | | |]|]; try discriminate. split_ands.
        repeat match goal with Hx : (_ =? _) = true |- _ => apply Z.eqb_eq in Hx end. subst c. exists off. split; [reflexivity|assumption]. }
      assert (ENTX : once = true \/ entails w (once_exit w stb' cond) exitf = true).
      { match goal with Hx : (once || entails w (once_exit w stb' cond) exitf) = true |- _ =>
          apply orb_prop in Hx; destruct Hx as [Hx|Hx]; [left|right]; exact Hx end. }
      pose proof (back_back cond shift body rest' once head back inv exitf pc2 stb stb' BODY BODYB RESTB ENTX AM BACKI ltac:(assumption) ltac:(assumption)) as BK.
      pose proof (entails_sound A st1 si1 sb1 inv R1 ltac:(assumption)) as RA.
      assert (HB : forall g si sb, Rel (anchor_of si sb) (st_of_facts inv) si sb -> bc_pc sb = head -> ir_read si cond <> 0 -> btermN g sb ->
                 iterm (ILoop cond shift body once :: rest') si).
      { intros g0 si0 sb0 R0 P0 NZ0 B0. apply iterm_loop_step; [apply Z.eqb_neq; exact NZ0|].
        apply (head_back cond shift body rest' once head back inv pc2 stb stb' BODY BODYB AM g0) with (sb := sb0); try assumption.
        intros g2 A2 si2 sb2 _ R2 P2 B2. apply (BK g2 A2 si2 sb2 R2 P2 B2). }
      destruct once.
      * split_ands. match goal with Hx : (pc1 =? head) = true |- _ => apply Z.eqb_eq in Hx end.
        assert (NZc : ir_read si1 cond <> 0).
        { pose proof R1 as (RI1 & _). rewrite (RI_read A st1 si1 cond RI1).
          match goal with Hx : nonzero_in w st1 _ = true |- _ => apply (nonzero_in_sound A st1 si1 sb1 _ R1 Hx) end. }
        apply (HB g1 si1 sb1 RA ltac:(lia) NZc BT1).
      * split_ands. destruct b as [| | | | |c off| | | | |]; try discriminate. split_ands.
        repeat match goal with Hx : (_ =? _) = true |- _ => apply Z.eqb_eq in Hx end. subst c.
        rewrite <- P1 in CB. destruct (bexec_at 0 sb1 _ CB) as (_ & NL & FE).
        pose proof (Rel_mem A st1 si1 sb1 cond R1 ltac:(assumption)) as EQ.
        destruct (ir_read si1 cond =? 0) eqn:Z0.
        -- apply iterm_loop_zero; [exact Z0|].
           assert (ST : forall f, bexec (S f) sb1 = bexec f (bc_set_pc sb1 (bc_pc sb1 + off))).
           { intros f. cbn [bc_exec]. rewrite NL, FE. cbn [andb]. rewrite <- EQ, Z0. reflexivity. }
           destruct (btermN_step g1 sb1 _ ST BT1) as (g' & L & BT').
           apply (RESTB g' (anchor_of si1 sb1) si1 (bc_set_pc sb1 (bc_pc sb1 + off))); [|cbn; lia|exact BT'].
           apply (Rel_ext _ _ si1 sb1); try reflexivity.
           match goal with Hx : (false || entails w st1 exitf) = true |- _ => cbn [orb] in Hx; apply (entails_sound A st1 si1 sb1 exitf R1 Hx) end.
        -- assert (ST : forall f, bexec (S f) sb1 = bexec f (next sb1)).
           { intros f. cbn [bc_exec]. rewrite NL, FE. cbn [andb]. rewrite <- EQ, Z0. reflexivity. }
           destruct (btermN_step g1 sb1 _ ST BT1) as (g' & L & BT').
           apply (HB g' si1 (next sb1)); [|cbn; lia|apply Z.eqb_neq; exact Z0|exact BT'].
           rewrite (anchor_ext si1 sb1 si1 (next sb1)) by reflexivity. apply (Rel_ext _ _ si1 sb1); try reflexivity. exact RA.
  - (* if *)
    destruct (code_at code pc1) as [[| | | | |c off| | | | |]|] eqn:CB; try discriminate.
    destruct cs as [|[?|join] cs1]; try discriminate.
    match type of H with (if ?c then _ else _) = _ => destruct c eqn:CK; [|discriminate] end.
    destruct (tv_block n w fuse code body (pc1 + 1) (pc1 + off) _ cs1) as [[[pc2 stb] cs2]|] eqn:TB; [|discriminate].
    destruct (after_move w code pc2 stb shift) as [[pc3 stb']|] eqn:AM; [|discriminate].
    match type of H with (if ?c then _ else _) = _ => destruct c eqn:CK2; [|discriminate] end.
    split_ands.
    repeat match goal with Hx : (_ <=? _) = true |- _ => apply Z.leb_le in Hx end.
    repeat match goal with Hx : (_ =? _) = true |- _ => apply Z.eqb_eq in Hx end. subst c pc3.
    rewrite <- P1 in CB. destruct (bexec_at 0 sb1 _ CB) as (_ & NL & FE).
    pose proof (Rel_mem A st1 si1 sb1 cond R1 ltac:(assumption)) as EQ.
    apply iterm_if. destruct (ir_read si1 cond =? 0) eqn:Z0.
    + left. split; [reflexivity|].
      assert (ST : forall f, bexec (S f) sb1 = bexec f (bc_set_pc sb1 (bc_pc sb1 + off))).
      { intros f. cbn [bc_exec]. rewrite NL, FE. cbn [andb]. rewrite <- EQ, Z0. reflexivity. }
      destruct (btermN_step g1 sb1 _ ST BT1) as (g' & L & BT').
      apply (IH _ _ _ _ _ _ _ _ _ H ltac:(lia) g' (anchor_of si1 sb1) si1 (bc_set_pc sb1 (bc_pc sb1 + off))); [|cbn; lia|exact BT'].
      apply (Rel_ext _ _ si1 sb1); try reflexivity. apply (entails_sound A st1 si1 sb1 join R1). assumption.
    + right. split; [reflexivity|].
      assert (ST : forall f, bexec (S f) sb1 = bexec f (next sb1)).
      { intros f. cbn [bc_exec]. rewrite NL, FE. cbn [andb]. rewrite <- EQ, Z0. reflexivity. }
      destruct (btermN_step g1 sb1 _ ST BT1) as (g' & L & BT').
      assert (RE : Rel A (add_nz st1 (cell_b st1 cond)) si1 (next sb1)).
      { apply (Rel_ext A _ si1 sb1); try reflexivity. destruct R1 as (RI1 & RB1 & IO1 & AG1 & NZ1).
        split; [exact RI1|]. split; [exact RB1|]. split; [exact IO1|]. split; [exact AG1|].
        intros p IN. cbn [add_nz s_nz] in IN. destruct IN as [<-|IN]; [|apply NZ1; exact IN].
        rewrite <- (agree_sound A st1 cond ltac:(assumption)). rewrite <- (RI_read A st1 si1 cond RI1).
        apply Z.eqb_neq. exact Z0. }
      destruct (iterm_body_cases body si1 (IH _ _ _ _ _ _ _ _ _ TB ltac:(lia) g' A si1 (next sb1) RE ltac:(cbn; lia) BT')) as [S|(f & s2 & E)]; [left; exact S|].
      right. exists f, s2. split; [exact E|].
      pose proof (tv_block_sound _ _ _ _ _ _ _ _ _ _ TB ltac:(lia) f A si1 (next sb1) RE ltac:(cbn; lia)) as HB. rewrite E in HB. cbn [SimC] in HB.
      destruct HB as (A2 & sb2 & RE2 & P2 & R2).
      destruct (after_move_sound _ _ _ _ _ A2 s2 sb2 AM R2 P2) as (A3 & sb3 & RE3 & P3 & R3).
      destruct (btermN_reach g' (next sb1) sb3 (reach_trans _ _ _ RE2 RE3) BT') as (g3 & L3 & BT3).
      apply (IH _ _ _ _ _ _ _ _ _ H ltac:(lia) g3 (anchor_of (ir_move s2 shift) sb3) _ sb3); [|exact P3|exact BT3].
      apply (entails_sound A3 stb' _ sb3 join R3). assumption.
Qed.

(** ** whole programs *)
Lemma look_zeros : forall k zs p, look k (map (fun k => (k, [])) zs) = Some p -> p = [].
Proof.
  intros k zs p. induction zs as [|z zs IH]; cbn [map look]; [discriminate|].
  destruct (z =? k); [intros H; injection H as <-; reflexivity|exact IH].
Qed.

Lemma rel_init : forall b zs, Rel (anchor_of (ir0 b) (bc0 b)) (st0 zs) (ir0 b) (bc0 b).
Proof.
  intros b zs.
  assert (Z0 : forall k, ev (anchor_of (ir0 b) (bc0 b)) (e_var (acell k)) = 0).
  { intros k. rewrite ev_var, rho_acell. cbn. rewrite MachineProofs.tget_empty. apply Z.mod_0_l. pose proof Mp; lia. }
  split; [|split; [|split; [reflexivity|split]]].
  - split; [reflexivity|]. split; [reflexivity|]. split; [cbn; lia|]. intros k. cbn [ir0 ir_tape]. rewrite MachineProofs.tget_empty.
    unfold cell_i. cbn [st0 s_ci s_d memz]. destruct (look k _) as [p|] eqn:L.
    + rewrite (look_zeros _ _ _ L). reflexivity.
    + symmetry. apply Z0.
  - split; [reflexivity|]. split; [reflexivity|]. split; [cbn; lia|]. split.
    + intros k. cbn [bc0 bc_tape]. rewrite MachineProofs.tget_empty. unfold cell_b. cbn [st0 s_cb s_d memz].
      destruct (look k _) as [p|] eqn:L.
      * rewrite (look_zeros _ _ _ L). reflexivity.
      * symmetry. apply Z0.
    + intros t p L. discriminate.
  - intros k _. reflexivity.
  - intros p [].
Qed.

Theorem tv_check_sound : forall fuse ir zs cs b, tv_check w fuse ir code zs cs = true -> forall f si',
  (ir_exec w e false f (snd ir) (ir0 b) = Done si' ->
     exists g sb', bexec g (bc0 b) = Done sb' /\ bc_io sb' = ir_io si') /\
  (ir_exec w e false f (snd ir) (ir0 b) = Stopped si' ->
     exists g sb', bexec g (bc0 b) = Stopped sb' /\ bc_io sb' = ir_io si').
Proof.
  intros fuse ir zs cs b H f si'. unfold tv_check in H. apply andb_prop in H. destruct H as [_ H].
  destruct (tv_block (S (isize (snd ir))) w fuse code (snd ir) 0 len (st0 zs) cs) as [[[pc' st'] cs']|] eqn:TB; [|discriminate].
  destruct cs'; [|discriminate].
  pose proof (tv_block_sound _ _ _ _ _ _ _ _ _ _ TB ltac:(lia) f _ (ir0 b) (bc0 b) (rel_init b zs) eq_refl) as S.
  split; intros E; rewrite E in S; cbn [SimC] in S.
  - destruct S as (A' & sb' & ((n & RE) & _) & P & (_ & _ & IO & _)).
    apply orb_prop in H. destruct H as [H|H].
    + apply Z.eqb_eq in H. exists (n + 1)%nat, sb'. split; [|congruence].
      apply RE; [|exact I]. cbn [bc_exec]. rewrite P, H, Z.eqb_refl. reflexivity.
    + apply andb_prop in H. destruct H as [H1 H2]. apply Z.eqb_eq in H1.
      destruct (code_at code pc') as [[| |sh| | | | | | | |]|] eqn:CA; try discriminate.
      rewrite <- P in CA. destruct (bexec_at 0 sb' _ CA) as (_ & NL & FE).
      exists (n + 2)%nat, (next (bc_move sb' sh)). split; [|cbn; congruence].
      apply RE; [|exact I]. cbn [bc_exec]. rewrite NL, FE. cbn [next bc_set_pc bc_pc bc_move]. rewrite P.
      replace (pc' + 1 =? len) with true by (symmetry; apply Z.eqb_eq; exact H1). reflexivity.
  - destruct S as (n & s' & E1 & E2). exists n, s'. split; assumption.
Qed.

(** a terminating bytecode run is matched by the IR run *)
Lemma bexec_det : forall g1 g2 s o1 o2, bexec g1 s = o1 -> bterminal o1 -> bexec g2 s = o2 -> bterminal o2 -> o1 = o2.
Proof.
  intros g1 g2 s o1 o2 E1 T1 E2 T2.
  rewrite <- (bexec_mono g1 s o1 E1 T1 (g1 + g2)%nat ltac:(lia)). rewrite <- (bexec_mono g2 s o2 E2 T2 (g1 + g2)%nat ltac:(lia)). reflexivity.
Qed.

Theorem tv_check_back : forall fuse ir zs cs b, tv_check w fuse ir code zs cs = true -> forall g sb',
  (bexec g (bc0 b) = Done sb' -> exists f si', ir_exec w e false f (snd ir) (ir0 b) = Done si' /\ ir_io si' = bc_io sb') /\
  (bexec g (bc0 b) = Stopped sb' -> exists f si', ir_exec w e false f (snd ir) (ir0 b) = Stopped si' /\ ir_io si' = bc_io sb').
Proof.
  intros fuse ir zs cs b H g sb'. pose proof H as H0. unfold tv_check in H. apply andb_prop in H. destruct H as [_ H].
  destruct (tv_block (S (isize (snd ir))) w fuse code (snd ir) 0 len (st0 zs) cs) as [[[pc' st'] cs']|] eqn:TB; [|discriminate].
  assert (CONV : forall o, bexec g (bc0 b) = o -> bterminal o -> exists f oi, ir_exec w e false f (snd ir) (ir0 b) = oi /\ iterminal oi).
  { intros o E T. apply (tv_block_back _ _ _ _ _ _ _ _ _ _ TB ltac:(lia) g _ (ir0 b) (bc0 b) (rel_init b zs) eq_refl). exists o. split; assumption. }
  split; intros E.
  - destruct (CONV _ E I) as (f & oi & EI & TI). destruct oi as [si'|si'|si'|p si'|si']; try contradiction.
    + destruct (proj1 (tv_check_sound fuse ir zs cs b H0 f si') EI) as (g2 & sb2 & E2 & IO2).
      pose proof (bexec_det g g2 _ _ _ E I E2 I) as EQ. injection EQ as <-. exists f, si'. split; [exact EI|congruence].
    + destruct (proj2 (tv_check_sound fuse ir zs cs b H0 f si') EI) as (g2 & sb2 & E2 & IO2).
      pose proof (bexec_det g g2 _ _ _ E I E2 I) as EQ. discriminate.
  - destruct (CONV _ E I) as (f & oi & EI & TI). destruct oi as [si'|si'|si'|p si'|si']; try contradiction.
    + destruct (proj1 (tv_check_sound fuse ir zs cs b H0 f si') EI) as (g2 & sb2 & E2 & IO2).
      pose proof (bexec_det g g2 _ _ _ E I E2 I) as EQ. discriminate.
    + destruct (proj2 (tv_check_sound fuse ir zs cs b H0 f si') EI) as (g2 & sb2 & E2 & IO2).
      pose proof (bexec_det g g2 _ _ _ E I E2 I) as EQ. injection EQ as <-. exists f, si'. split; [exact EI|congruence].
Qed.
End Sim.

(** the statement for a bytecode program as the engines run it *)
Theorem tv_sound : forall w fuse ir (p : bprog) zs cs e budget, tv_check w fuse ir (bp_code p) zs cs = true ->
  forall fuel si',
  (ir_run w e false budget fuel ir = Done si' ->
     exists fuel' sb', bc_run w e false budget fuel' p = Done sb' /\ bc_io sb' = ir_io si') /\
  (ir_run w e false budget fuel ir = Stopped si' ->
     exists fuel' sb', bc_run w e false budget fuel' p = Stopped sb' /\ bc_io sb' = ir_io si').
Proof.
  intros w fuse ir p zs cs e budget H fuel si'.
  assert (Hw : 0 <= w) by (unfold tv_check in H; apply andb_prop in H; destruct H as [H _]; apply Z.leb_le; exact H).
  unfold ir_run, bc_run. cbn [andb].
  apply (tv_check_sound w Hw e (bp_code p) (fetch_of p) (fetch_instr_at p) fuse ir zs cs budget H fuel si').
Qed.

(** conversely: a bytecode run that ends is matched by an IR run that ends the same way, so on an
    accepted pair the two runs end together or diverge together *)
Theorem tv_sound_back : forall w fuse ir (p : bprog) zs cs e budget, tv_check w fuse ir (bp_code p) zs cs = true ->
  forall fuel sb',
  (bc_run w e false budget fuel p = Done sb' ->
     exists fuel' si', ir_run w e false budget fuel' ir = Done si' /\ ir_io si' = bc_io sb') /\
  (bc_run w e false budget fuel p = Stopped sb' ->
     exists fuel' si', ir_run w e false budget fuel' ir = Stopped si' /\ ir_io si' = bc_io sb').
Proof.
  intros w fuse ir p zs cs e budget H fuel sb'.
  assert (Hw : 0 <= w) by (unfold tv_check in H; apply andb_prop in H; destruct H as [H _]; apply Z.leb_le; exact H).
  unfold ir_run, bc_run. cbn [andb].
  apply (tv_check_back w Hw e (bp_code p) (fetch_of p) (fetch_instr_at p) fuse ir zs cs budget H fuel sb').
Qed.

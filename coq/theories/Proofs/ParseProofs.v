(** * ParseProofs.v — acceptance, error kind/position and comment-insensitivity of the parser
    model (property C12). *)
From Coq Require Import ZArith List Bool Lia.
From HPBF Require Import Cell IO BF Expr IR Parse.
Import ListNotations.
Open Scope Z_scope.

(** the property's own statement: scan the brackets with a stack of '[' positions *)
Fixpoint scan (cs : list Z) (i : Z) (stack : list Z) : option (perr * Z) :=
  match cs with
  | [] => match stack with [] => None | p :: _ => Some (LoopNotClosed, p) end
  | c :: r =>
      if c =? ch_open then scan r (i + 1) (i :: stack)
      else if c =? ch_close then
        match stack with
        | [] => Some (LoopNotOpened, i)
        | _ :: st => scan r (i + 1) st
        end
      else scan r (i + 1) stack
  end.

Definition verdict (r : parse_res) : option (perr * Z) :=
  match r with POk _ => None | PErr k p => Some (k, p) end.

Lemma parse_go_scan : forall w cs i top stack positions, length stack = length positions ->
  verdict (parse_go w cs i top stack positions) = scan cs i positions.
Proof.
  intros w cs. induction cs as [|c r IH]; intros i top stack positions L.
  - simpl. destruct stack as [|f st]; destruct positions as [|p ps]; simpl in *; try discriminate; reflexivity.
  - cbn [parse_go scan].
    destruct (c =? ch_gt) eqn:E1.
    { apply Z.eqb_eq in E1; subst c. change (ch_gt =? ch_open) with false. change (ch_gt =? ch_close) with false. apply IH; exact L. }
    destruct (c =? ch_lt) eqn:E2.
    { apply Z.eqb_eq in E2; subst c. change (ch_lt =? ch_open) with false. change (ch_lt =? ch_close) with false. apply IH; exact L. }
    destruct (c =? ch_plus) eqn:E3.
    { apply Z.eqb_eq in E3; subst c. change (ch_plus =? ch_open) with false. change (ch_plus =? ch_close) with false. apply IH; exact L. }
    destruct (c =? ch_minus) eqn:E4.
    { apply Z.eqb_eq in E4; subst c. change (ch_minus =? ch_open) with false. change (ch_minus =? ch_close) with false. apply IH; exact L. }
    destruct (c =? ch_dot) eqn:E5.
    { apply Z.eqb_eq in E5; subst c. change (ch_dot =? ch_open) with false. change (ch_dot =? ch_close) with false.
      destruct (flush_key (f_shift top) (f_insts top, f_buff top)). apply IH; exact L. }
    destruct (c =? ch_comma) eqn:E6.
    { apply Z.eqb_eq in E6; subst c. change (ch_comma =? ch_open) with false. change (ch_comma =? ch_close) with false. apply IH; exact L. }
    destruct (c =? ch_open) eqn:E7. { apply IH. simpl. rewrite L. reflexivity. }
    destruct (c =? ch_close) eqn:E8.
    + destruct positions as [|p ps]; [reflexivity|].
      destruct stack as [|f st]; [discriminate|]. apply IH. simpl in L. lia.
    + apply IH; exact L.
Qed.

Theorem parse_verdict : forall w cs, verdict (parse w cs) = scan cs 0 [].
Proof. intros. unfold parse. apply parse_go_scan. reflexivity. Qed.

Lemma scan_balanced : forall cs i stack,
  (scan cs i stack = None) <-> balanced_from cs (length stack) = true.
Proof.
  induction cs as [|c r IH]; intros i stack.
  - simpl. destruct stack; simpl; split; intros; try reflexivity; discriminate.
  - cbn [scan balanced_from]. destruct (c =? ch_open).
    + rewrite (IH (i + 1) (i :: stack)). simpl. reflexivity.
    + destruct (c =? ch_close).
      * destruct stack as [|p st]; simpl; [split; intros; discriminate|]. apply IH.
      * apply IH.
Qed.

(** accepts iff balanced *)
Theorem parse_accepts_iff : forall w cs, (exists b, parse w cs = POk b) <-> balanced cs = true.
Proof.
  intros w cs. unfold balanced. rewrite <- (scan_balanced cs 0 []). rewrite <- (parse_verdict w).
  destruct (parse w cs) as [b|k p]; simpl; split; intros H; try reflexivity; try discriminate.
  - eexists; reflexivity.
  - destruct H as [b H]. discriminate.
Qed.

(** first unmatched ']' / innermost unclosed '[' : characterisation of [scan]'s answer *)
Theorem parse_error_spec : forall w cs k p, parse w cs = PErr k p -> scan cs 0 [] = Some (k, p).
Proof. intros w cs k p H. rewrite <- (parse_verdict w), H. reflexivity. Qed.

(** ** comment insensitivity *)
Definition shape (r : parse_res) : option block + perr :=
  match r with POk b => inl (Some b) | PErr k _ => inr k end.

Lemma is_cmd_cases : forall c, is_cmd c = false ->
  (c =? ch_gt) = false /\ (c =? ch_lt) = false /\ (c =? ch_plus) = false /\ (c =? ch_minus) = false /\
  (c =? ch_dot) = false /\ (c =? ch_comma) = false /\ (c =? ch_open) = false /\ (c =? ch_close) = false.
Proof.
  intros c H. unfold is_cmd in H.
  repeat (apply orb_false_iff in H; destruct H as [H ?]). repeat split; assumption.
Qed.

Lemma parse_go_filter : forall w cs i1 i2 top stack pos1 pos2, length pos1 = length pos2 ->
  shape (parse_go w cs i1 top stack pos1) = shape (parse_go w (filter is_cmd cs) i2 top stack pos2).
Proof.
  intros w cs. induction cs as [|c r IH]; intros i1 i2 top stack pos1 pos2 L.
  - simpl. destruct stack; [reflexivity|]. destruct pos1, pos2; simpl in *; try discriminate; reflexivity.
  - cbn [filter]. destruct (is_cmd c) eqn:IC.
    + cbn [parse_go].
      destruct (c =? ch_gt); [apply IH; exact L|]. destruct (c =? ch_lt); [apply IH; exact L|].
      destruct (c =? ch_plus); [apply IH; exact L|]. destruct (c =? ch_minus); [apply IH; exact L|].
      destruct (c =? ch_dot); [destruct (flush_key (f_shift top) (f_insts top, f_buff top)); apply IH; exact L|].
      destruct (c =? ch_comma); [apply IH; exact L|].
      destruct (c =? ch_open); [apply IH; simpl; rewrite L; reflexivity|].
      destruct (c =? ch_close).
      * destruct pos1 as [|p1 ps1]; destruct pos2 as [|p2 ps2]; simpl in L; try discriminate; [reflexivity|].
        destruct stack; [reflexivity|]. apply IH. lia.
      * apply IH; exact L.
    + destruct (is_cmd_cases c IC) as [T1 [T2 [T3 [T4 [T5 [T6 [T7 T8]]]]]]].
      cbn [parse_go]. rewrite T1, T2, T3, T4, T5, T6, T7, T8. apply IH; exact L.
Qed.

(** inserting or deleting non-command characters changes neither acceptance, nor the error kind,
    nor the IR that is produced *)
Theorem parse_comment_insensitive : forall w cs, shape (parse w cs) = shape (parse w (filter is_cmd cs)).
Proof. intros. unfold parse. apply parse_go_filter. reflexivity. Qed.

(** UTF-8: every byte of a multi-byte scalar is >= 0x80, hence never a command; the byte-wise
    in-place interpreter and the char-wise parser therefore see the same command sequence *)
Theorem noncmd_above_ascii : forall c, 128 <= c -> is_cmd c = false.
Proof.
  intros c H. unfold is_cmd, ch_plus, ch_comma, ch_minus, ch_dot, ch_lt, ch_gt, ch_open, ch_close.
  repeat (match goal with |- context [c =? ?k] => destruct (Z.eqb_spec c k); [lia|] end). reflexivity.
Qed.

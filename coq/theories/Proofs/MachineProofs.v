(** * MachineProofs.v — facts about the canonical small-step machine: composition of runs,
    and soundness of state-repeat divergence certificates (property C05). *)

From Coq Require Import ZArith List Bool Lia FMapPositive Arith.
From HPBF Require Import Cell IO BF Machines.
Import ListNotations.
Open Scope Z_scope.

(** ** runs compose *)
Lemma cfg_after_add : forall w e n m c c',
  bf_cfg_after w e n c = Some c' -> bf_cfg_after w e (n + m) c = bf_cfg_after w e m c'.
Proof.
  intros w e n. induction n as [|n IH]; intros m c c' H; simpl in *.
  - injection H as <-. reflexivity.
  - destruct (bf_step w e c) as [c1|o]; [|discriminate]. apply IH. exact H.
Qed.

Lemma steps_after : forall w e n m c c',
  bf_cfg_after w e n c = Some c' -> bf_steps w e (n + m) c = bf_steps w e m c'.
Proof.
  intros w e n. induction n as [|n IH]; intros m c c' H; simpl in *.
  - injection H as <-. reflexivity.
  - destruct (bf_step w e c) as [c1|o]; [|discriminate]. apply IH. exact H.
Qed.

Lemma cfg_after_prefix : forall w e n m c c',
  bf_cfg_after w e (n + m) c = Some c' -> exists c1, bf_cfg_after w e n c = Some c1.
Proof.
  intros w e n. induction n as [|n IH]; intros m c c' H; simpl in *.
  - eexists; reflexivity.
  - destruct (bf_step w e c) as [c1|o]; [|discriminate]. eapply IH. exact H.
Qed.

Lemma steps_of_cfg_after : forall w e n c c',
  bf_cfg_after w e n c = Some c' -> bf_steps w e n c = OutOfFuel (c_st c').
Proof.
  intros w e n. induction n as [|n IH]; intros c c' H; simpl in *.
  - injection H as <-. reflexivity.
  - destruct (bf_step w e c) as [c1|o]; [|discriminate]. apply IH. exact H.
Qed.

(** ** decidable equality on commands *)
Lemma cmd_eqb_eq : forall a b, cmd_eqb a b = true -> a = b.
Proof.
  fix IH 1. intros a b H.
  destruct a as [| | | | | |x]; destruct b as [| | | | | |y]; simpl in H; try discriminate; try reflexivity.
  f_equal. revert y H. induction x as [|c x IHx]; intros y H; destruct y as [|d y]; try discriminate; [reflexivity|].
  apply andb_true_iff in H. destruct H as [H1 H2].
  f_equal; [apply IH; exact H1|apply IHx; exact H2].
Qed.

Lemma cmds_eqb_eq : forall x y, cmds_eqb x y = true -> x = y.
Proof.
  induction x as [|c x IH]; intros y H; destruct y as [|d y]; simpl in H; try discriminate; [reflexivity|].
  apply andb_true_iff in H. destruct H as [H1 H2]. f_equal; [apply cmd_eqb_eq; exact H1|apply IH; exact H2].
Qed.

Lemma kont_eqb_eq : forall x y, kont_eqb x y = true -> x = y.
Proof.
  induction x as [|[a1 b1] x IH]; intros y H; destruct y as [|[a2 b2] y]; simpl in H; try discriminate; [reflexivity|].
  apply andb_true_iff in H. destruct H as [H12 H3]. apply andb_true_iff in H12. destruct H12 as [H1 H2].
  f_equal; [f_equal; apply cmds_eqb_eq; assumption|apply IH; exact H3].
Qed.

(** ** extensional equality of tapes *)
Lemma tmap_sub_spec : forall a b, tmap_sub a b = true ->
  forall p v, PositiveMap.find p a = Some v -> tgetp b p = v.
Proof.
  intros a b H p v F. unfold tmap_sub in H. rewrite forallb_forall in H.
  apply PositiveMap.elements_correct in F. specialize (H (p, v) F). simpl in H. apply Z.eqb_eq in H. exact H.
Qed.

Lemma tmap_eqb_ext : forall a b, tmap_eqb a b = true -> forall p, tgetp a p = tgetp b p.
Proof.
  intros a b H p. unfold tmap_eqb in H. apply andb_true_iff in H. destruct H as [H1 H2].
  unfold tgetp at 1. destruct (PositiveMap.find p a) as [v|] eqn:F.
  - symmetry. apply (tmap_sub_spec a b H1 p v F).
  - unfold tgetp. destruct (PositiveMap.find p b) as [v'|] eqn:G; [|reflexivity].
    pose proof (tmap_sub_spec b a H2 p v' G) as E. unfold tgetp in E. rewrite F in E. exact E.
Qed.

Lemma tget_tgetp : forall t k, tget t k = tgetp t (key_of k).
Proof. reflexivity. Qed.

Lemma key_of_inj : forall a b, key_of a = key_of b -> a = b.
Proof. intros [|p|p] [|q|q] H; simpl in H; try discriminate; try reflexivity; injection H as <-; reflexivity. Qed.

Lemma tget_tset : forall t k v k', tget (tset t k v) k' = if k =? k' then v else tget t k'.
Proof.
  intros t k v k'. unfold tget, tset. destruct (k =? k') eqn:E.
  - apply Z.eqb_eq in E. subst. rewrite PositiveMap.gss. reflexivity.
  - apply Z.eqb_neq in E. rewrite PositiveMap.gso; [reflexivity|]. intros H. apply E. symmetry. apply key_of_inj. exact H.
Qed.

Lemma tget_empty : forall k, tget tempty k = 0.
Proof. intros k. unfold tget, tempty. rewrite PositiveMap.gempty. reflexivity. Qed.

(** ** semantic equivalence of configurations *)
Definition teq (a b : tmap) : Prop := forall k, tget a k = tget b k.

Record ceq (e : env) (c1 c2 : bfcfg) : Prop := {
  q_ctl : c_ctl c1 = c_ctl c2;
  q_kont : c_kont c1 = c_kont c2;
  q_tape : teq (tape (c_st c1)) (tape (c_st c2));
  q_ptr : ptr (c_st c1) = ptr (c_st c2);
  q_in : eff_in_pos e (c_st c1) = eff_in_pos e (c_st c2)
}.

Lemma cfg_equiv_ceq : forall e c1 c2, cfg_equiv e c1 c2 = true -> ceq e c1 c2.
Proof.
  intros e c1 c2 H. unfold cfg_equiv in H.
  repeat (apply andb_true_iff in H; destruct H as [H ?]).
  constructor.
  - apply cmds_eqb_eq. assumption.
  - apply kont_eqb_eq. assumption.
  - intros k. rewrite !tget_tgetp. apply tmap_eqb_ext. assumption.
  - apply Z.eqb_eq. assumption.
  - apply Nat.eqb_eq. assumption.
Qed.

Lemma teq_tset : forall a b k v, teq a b -> teq (tset a k v) (tset b k v).
Proof. intros a b k v H k'. rewrite !tget_tset. destruct (k =? k'); [reflexivity|apply H]. Qed.

Definition fault_free (e : env) : Prop := in_absent e = false /\ in_fail_at e = None /\ out_fail_at e = None.

Lemma env_fault_free_spec : forall e, env_fault_free e = true -> fault_free e.
Proof.
  intros e H. unfold env_fault_free in H. apply andb_true_iff in H. destruct H as [H H3].
  apply andb_true_iff in H. destruct H as [H1 H2]. apply negb_true_iff in H1.
  unfold fault_free. destruct (in_fail_at e); [discriminate|]. destruct (out_fail_at e); [discriminate|]. repeat split; assumption.
Qed.

(** states that agree on tape contents, pointer and remaining input take equivalent simple steps *)
Definition seq_st (e : env) (s1 s2 : bfst) : Prop :=
  teq (tape s1) (tape s2) /\ ptr s1 = ptr s2 /\ eff_in_pos e s1 = eff_in_pos e s2.

Lemma simple_equiv : forall w e x s1 s2, fault_free e -> seq_st e s1 s2 ->
  match bf_simple w e x s1, bf_simple w e x s2 with
  | inl a, inl b => seq_st e a b
  | inr _, inr _ => True
  | _, _ => False
  end.
Proof.
  intros w e x s1 s2 [F1 [F2 F3]] [T [P I]].
  assert (C : cur s1 = cur s2) by (unfold cur; rewrite P; apply T).
  destruct x; simpl.
  - split; [|split]; simpl; [rewrite C, P; apply teq_tset; exact T|exact P|exact I].
  - split; [|split]; simpl; [rewrite C, P; apply teq_tset; exact T|exact P|exact I].
  - split; [|split]; simpl; [exact T|rewrite P; reflexivity|exact I].
  - split; [|split]; simpl; [exact T|rewrite P; reflexivity|exact I].
  - unfold do_output. rewrite F3. simpl.
    destruct (negb (out_present e)); simpl; (split; [|split]); simpl; try assumption.
  - unfold do_input. rewrite F1, F2. simpl.
    unfold eff_in_pos in I.
    destruct (nth_error (input e) (in_pos (io s1))) as [b1|] eqn:N1;
    destruct (nth_error (input e) (in_pos (io s2))) as [b2|] eqn:N2; simpl.
    + (* both inside: cursors equal *)
      assert (L1 : (in_pos (io s1) < length (input e))%nat) by (apply nth_error_Some; congruence).
      assert (L2 : (in_pos (io s2) < length (input e))%nat) by (apply nth_error_Some; congruence).
      assert (E : in_pos (io s1) = in_pos (io s2)) by (rewrite !Nat.min_l in I by lia; exact I).
      rewrite E in N1. rewrite N1 in N2. injection N2 as <-.
      split; [|split]; simpl; [rewrite P; apply teq_tset; exact T|exact P|unfold eff_in_pos; cbn [io set_io set_cur in_pos]; rewrite E; reflexivity].
    + exfalso. apply nth_error_None in N2.
      assert (L1 : (in_pos (io s1) < length (input e))%nat) by (apply nth_error_Some; congruence).
      rewrite Nat.min_l, Nat.min_r in I by lia. lia.
    + exfalso. apply nth_error_None in N1.
      assert (L2 : (in_pos (io s2) < length (input e))%nat) by (apply nth_error_Some; congruence).
      rewrite Nat.min_r, Nat.min_l in I by lia. lia.
    + apply nth_error_None in N1, N2.
      split; [|split]; simpl; [rewrite P; apply teq_tset; exact T|exact P|unfold eff_in_pos; cbn [io set_io set_cur in_pos]; rewrite !Nat.min_r by lia; reflexivity].
  - split; [|split]; assumption.
Qed.

Lemma ceq_seq : forall e c1 c2, ceq e c1 c2 -> seq_st e (c_st c1) (c_st c2).
Proof. intros e c1 c2 [A B C D E]. repeat split; assumption. Qed.

Lemma step_equiv : forall w e c1 c2, fault_free e -> ceq e c1 c2 ->
  match bf_step w e c1, bf_step w e c2 with
  | Next a, Next b => ceq e a b
  | Final _, Final _ => True
  | _, _ => False
  end.
Proof.
  intros w e c1 c2 F Q. pose proof Q as [A B T P Iq].
  assert (C : cur (c_st c1) = cur (c_st c2)) by (unfold cur; rewrite P; apply T).
  unfold bf_step. rewrite <- A, <- B, <- C.
  destruct (c_ctl c1) as [|x rest] eqn:Ectl.
  - destruct (c_kont c1) as [|[body rest'] k] eqn:Ek; [exact I|].
    destruct (cur (c_st c1) =? 0); constructor; simpl; try assumption; reflexivity.
  - assert (NL : forall y, (forall body, y <> Loop body) ->
        match (match bf_simple w e y (c_st c1) with
               | inl s' => Next {| c_ctl := rest; c_kont := c_kont c1; c_st := s' |}
               | inr s' => Final (Stopped s') end),
              (match bf_simple w e y (c_st c2) with
               | inl s' => Next {| c_ctl := rest; c_kont := c_kont c1; c_st := s' |}
               | inr s' => Final (Stopped s') end) with
        | Next a, Next b => ceq e a b
        | Final _, Final _ => True
        | _, _ => False
        end).
    { intros y _. pose proof (simple_equiv w e y (c_st c1) (c_st c2) F (ceq_seq e c1 c2 Q)) as S.
      destruct (bf_simple w e y (c_st c1)) as [a|a]; destruct (bf_simple w e y (c_st c2)) as [b|b];
        try contradiction; [|exact I].
      destruct S as [S1 [S2 S3]]. constructor; simpl; try assumption; reflexivity. }
    destruct x; try (apply NL; intros body Hb; discriminate).
    destruct (cur (c_st c1) =? 0); constructor; simpl; try assumption; try reflexivity.
Qed.

Lemma run_equiv : forall w e n c1 c2, fault_free e -> ceq e c1 c2 ->
  match bf_cfg_after w e n c1, bf_cfg_after w e n c2 with
  | Some a, Some b => ceq e a b
  | None, None => True
  | _, _ => False
  end.
Proof.
  intros w e n. induction n as [|n IH]; intros c1 c2 F Q; simpl; [exact Q|].
  pose proof (step_equiv w e c1 c2 F Q) as S.
  destruct (bf_step w e c1) as [a|o1]; destruct (bf_step w e c2) as [b|o2]; try contradiction; [|exact I].
  apply IH; assumption.
Qed.

(** ** a repeated state means the run never ends *)
Theorem repeat_never_ends : forall w e c d cj, fault_free e ->
  bf_cfg_after w e (S d) c = Some cj -> ceq e c cj ->
  forall n, exists c', bf_cfg_after w e n c = Some c'.
Proof.
  intros w e c d cj F R Q n. induction n as [n IH] using lt_wf_ind.
  destruct (le_lt_dec n (S d)) as [Hle|Hgt].
  - replace (S d) with (n + (S d - n))%nat in R by lia. eapply cfg_after_prefix. exact R.
  - replace n with (S d + (n - S d))%nat by lia.
    rewrite (cfg_after_add w e (S d) (n - S d) c cj R).
    destruct (IH (n - S d)%nat ltac:(lia)) as [c' Hc'].
    pose proof (run_equiv w e (n - S d) c cj F Q) as E. rewrite Hc' in E.
    destruct (bf_cfg_after w e (n - S d) cj) as [b|]; [eexists; reflexivity|contradiction].
Qed.

Theorem state_repeat_diverges : forall w e p i d,
  cert_ok w e p i d = true ->
  forall n, exists s, bf_steps w e n {| c_ctl := p; c_kont := []; c_st := bf0 |} = OutOfFuel s.
Proof.
  intros w e p i d H n. unfold cert_ok in H. apply andb_true_iff in H. destruct H as [HF H].
  apply env_fault_free_spec in HF.
  set (c0 := {| c_ctl := p; c_kont := []; c_st := bf0 |}) in *.
  destruct (bf_cfg_after w e i c0) as [ci|] eqn:Ri; [|discriminate].
  destruct (bf_cfg_after w e (S d) ci) as [cj|] eqn:Rj; [|discriminate].
  apply cfg_equiv_ceq in H.
  destruct (le_lt_dec n i) as [Hle|Hgt].
  - replace i with (n + (i - n))%nat in Ri by lia.
    destruct (cfg_after_prefix w e n (i - n) c0 ci Ri) as [c1 H1].
    exists (c_st c1). apply steps_of_cfg_after. exact H1.
  - destruct (repeat_never_ends w e ci d cj HF Rj H (n - i)%nat) as [c' Hc'].
    exists (c_st c'). replace n with (i + (n - i))%nat by lia.
    rewrite (steps_after w e i (n - i) c0 ci Ri). apply steps_of_cfg_after. exact Hc'.
Qed.

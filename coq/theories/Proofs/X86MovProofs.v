(** * X86MovProofs.v — what the pointer-move template of the baseline JIT does (properties C03/C06). *)
From Coq Require Import ZArith List Bool Lia.
From HPBF Require Import BC X86 X86Call X86Mov.
Import ListNotations.
Open Scope Z_scope.

Local Arguments Z.mul : simpl never.
Local Arguments Z.add : simpl never.
Local Arguments Z.sub : simpl never.
Local Arguments Z.pow : simpl never.
Local Arguments Z.div : simpl never.
Local Arguments Z.modulo : simpl never.

Lemma mins_eqb_eq : forall a b, mins_eqb a b = true -> a = b.
Proof.
  intros a b H. destruct a, b; cbn in H; try discriminate; try reflexivity;
    try (apply Z.eqb_eq in H; subst; reflexivity);
    apply andb_prop in H; destruct H as [H1 H2]; apply Z.eqb_eq in H1; apply Z.eqb_eq in H2; subst; reflexivity.
Qed.
Lemma code_eqb_eq : forall a b, code_eqb a b = true -> a = b.
Proof.
  induction a as [|x a IH]; intros [|y b] H; cbn in H; try discriminate; [reflexivity|].
  apply andb_prop in H. destruct H as [H1 H2]. apply mins_eqb_eq in H1. subst. f_equal. apply IH. exact H2.
Qed.

Section Run.
Variable havoc : Z -> Z.
Variable ext : Z * Z * Z -> Z * Z * Z.

Notation run := (mrun havoc ext).
Notation step := (mstep havoc ext).

Definition is_jb (i : mins) : bool := match i with MJb => true | _ => false end.

Lemma step_noexit : forall st i, is_jb i = false -> snd (step st i) = false.
Proof.
  intros st i H. destruct i; try discriminate; cbn; try reflexivity.
  - destruct (mk st); reflexivity.
  - destruct (ext (mB st, mS st, mO st)) as [[b s] o]. reflexivity.
Qed.

Lemma run_cons : forall i rest st,
  run (i :: rest) st = if snd (step st i) then (fst (step st i), true) else run rest (fst (step st i)).
Proof. intros. cbn [mrun]. destruct (mstep havoc ext st i) as [st' ex]. reflexivity. Qed.

Lemma run_cons_noexit : forall i rest st, is_jb i = false -> run (i :: rest) st = run rest (fst (step st i)).
Proof. intros i rest st H. rewrite run_cons, (step_noexit st i H). reflexivity. Qed.

(** pushing a list of registers *)
Lemma run_pushes : forall rs rest st,
  run (map MPush rs ++ rest) st =
  run rest {| mr := mr st; mB := mB st; mS := mS st; mO := mO st; mk := map (mr st) (rev rs) ++ mk st;
              mcalls := mcalls st; mbelow := mbelow st |}.
Proof.
  induction rs as [|r rs IH]; intros rest st.
  - cbn. destruct st; reflexivity.
  - cbn [map app]. rewrite run_cons_noexit by reflexivity. cbn [mstep fst]. rewrite IH. cbn [mr mB mS mO mk mcalls mbelow].
    f_equal. f_equal. cbn [rev]. rewrite map_app, <- app_assoc. reflexivity.
Qed.

(** popping them back: every popped register receives the value that was pushed for it *)
Lemma run_pops : forall rs' (v : Z -> Z) rest st k0, mk st = map v rs' ++ k0 ->
  run (map MPop rs' ++ rest) st =
  run rest {| mr := fold_left (fun f r => upd f r (v r)) rs' (mr st); mB := mB st; mS := mS st; mO := mO st; mk := k0;
              mcalls := mcalls st; mbelow := mbelow st |}.
Proof.
  induction rs' as [|r rs IH]; intros v rest st k0 H.
  - cbn in *. subst k0. destruct st; reflexivity.
  - cbn [map app] in *. rewrite run_cons_noexit by reflexivity. cbn [mstep]. rewrite H. cbn [fst].
    rewrite (IH v rest _ k0); [|reflexivity]. reflexivity.
Qed.

Lemma fold_upd_notin : forall rs (v : Z -> Z) f r, ~ List.In r rs -> fold_left (fun f r => upd f r (v r)) rs f r = f r.
Proof.
  induction rs as [|x rs IH]; intros v f r H; [reflexivity|]. cbn [fold_left]. rewrite IH.
  - unfold upd. destruct (r =? x) eqn:E; [apply Z.eqb_eq in E; subst; exfalso; apply H; left; reflexivity|reflexivity].
  - intros I. apply H. right. exact I.
Qed.
Lemma fold_upd_in : forall rs (v : Z -> Z) f r, List.In r rs -> fold_left (fun f r => upd f r (v r)) rs f r = v r.
Proof.
  induction rs as [|x rs IH]; intros v f r H; [contradiction|]. cbn [fold_left].
  destruct (in_dec Z.eq_dec r rs) as [I|N]; [apply IH; exact I|].
  destruct H as [->|H]; [|contradiction]. rewrite (fold_upd_notin rs v _ r N). unfold upd. rewrite Z.eqb_refl. reflexivity.
Qed.

(** the slow path: store the offset, save, call, restore, reload *)
Lemma slow_path : forall rs (odd : bool) fn sz c3 st, mk st = [] -> mcalls st = [] ->
  (forall r, List.In r rs -> r <> 0 /\ r <> 5) ->
  exists stf,
    run (MStoreOff :: map MPush rs ++ (if odd then [MSubRsp] else []) ++
         [MMovRR 7 3; MMovI 6 0; MMovI 2 1; MMovI 0 fn; MCall 0] ++
         (if odd then [MAddRsp] else []) ++ map MPop (rev rs) ++
         [MLoadRbpBase; MLoadRaxOff; MLeaRbpIdx sz c3]) st = (stf, false) /\
    (let '(b', s', o') := ext (mB st, mS st, mr st 0) in
     mB stf = b' /\ mS stf = s' /\ mO stf = o' /\ mr stf 5 = b' + o' * sz + c3) /\
    mcalls stf = [(mr st 3, 0, 1)] /\ mk stf = [] /\
    (forall r, r <> 0 -> r <> 5 -> (List.In r rs \/ caller_saved r = false) -> mr stf r = mr st r).
Proof.
  intros rs odd fn sz c3 st K C RS.
  rewrite run_cons_noexit by reflexivity. cbn [mstep fst].
  rewrite run_pushes. cbn [mr mB mS mO mk mcalls mbelow]. rewrite K, app_nil_r.
  set (pushed := map (mr st) (rev rs)).
  assert (MID : forall k0 rest (stx : mst), mr stx = mr st -> mB stx = mB st -> mS stx = mS st -> mO stx = mr st 0 ->
            mk stx = k0 -> mcalls stx = [] -> mbelow stx = mbelow st ->
            run (MMovRR 7 3 :: MMovI 6 0 :: MMovI 2 1 :: MMovI 0 fn :: MCall 0 :: rest) stx =
            run rest (let '(b', s', o') := ext (mB st, mS st, mr st 0) in
                      {| mr := fun r => if caller_saved r then havoc r
                                        else upd (upd (upd (upd (mr st) 7 (mr st 3)) 6 0) 2 1) 0 fn r;
                         mB := b'; mS := s'; mO := o'; mk := k0; mcalls := [(mr st 3, 0, 1)]; mbelow := mbelow st |})).
  { intros k0 rest stx E1 E2 E3 E4 E5 E6 E7.
    do 5 (rewrite run_cons_noexit by reflexivity). cbn [mstep fst mset mr mB mS mO mk mcalls mbelow].
    rewrite E1, E2, E3, E4, E5, E6, E7. destruct (ext (mB st, mS st, mr st 0)) as [[b' s'] o'].
    cbn [fst mr mB mS mO mk mcalls mbelow app]. reflexivity. }
  destruct (ext (mB st, mS st, mr st 0)) as [[b' s'] o'] eqn:EX.
  assert (FIN : forall stm, mB stm = b' -> mS stm = s' -> mO stm = o' -> mk stm = pushed -> mcalls stm = [(mr st 3, 0, 1)] ->
            (forall r, caller_saved r = false -> mr stm r = mr st r) ->
            exists stf, run (map MPop (rev rs) ++ [MLoadRbpBase; MLoadRaxOff; MLeaRbpIdx sz c3]) stm = (stf, false) /\
              (mB stf = b' /\ mS stf = s' /\ mO stf = o' /\ mr stf 5 = b' + o' * sz + c3) /\
              mcalls stf = [(mr st 3, 0, 1)] /\ mk stf = [] /\
              (forall r, r <> 0 -> r <> 5 -> (List.In r rs \/ caller_saved r = false) -> mr stf r = mr st r)).
  { intros stm F1 F2 F3 F4 F5 F6.
    rewrite (run_pops (rev rs) (mr st) _ stm []) by (rewrite F4, app_nil_r; reflexivity).
    do 3 (rewrite run_cons_noexit by reflexivity). cbn [mstep fst mset mr mB mS mO mk mcalls mbelow mrun].
    eexists. split; [reflexivity|]. cbn [mr mB mS mO mk mcalls]. split; [|split; [exact F5|split; [reflexivity|]]].
    - rewrite F1, F2, F3. repeat split; reflexivity.
    - intros r N0 N5 H.
      assert (UN : forall (f : Z -> Z) k v, r <> k -> upd f k v r = f r)
        by (intros f k v Hk; unfold upd; destruct (r =? k) eqn:E; [apply Z.eqb_eq in E; contradiction|reflexivity]).
      unfold mset. cbn [mr]. rewrite !UN by assumption.
      destruct (in_dec Z.eq_dec r (rev rs)) as [I|NI].
      + rewrite fold_upd_in by exact I. reflexivity.
      + rewrite fold_upd_notin by exact NI. destruct H as [H|H]; [exfalso; apply NI; apply in_rev in H; exact H|apply F6; exact H]. }
  destruct odd.
  - cbn [app]. rewrite run_cons_noexit by reflexivity. cbn [mstep fst mr mB mS mO mk mcalls mbelow].
    erewrite (MID (0 :: pushed)); [|reflexivity|reflexivity|reflexivity|reflexivity|reflexivity|exact C|reflexivity].
    cbn [app]. rewrite run_cons_noexit by reflexivity. cbn [mstep fst mr mB mS mO mk mcalls mbelow tl].
    apply FIN; try reflexivity. intros r H. cbn [mr]. rewrite H. unfold upd.
    assert (NC : forall x, caller_saved x = true -> r <> x) by (intros x Hx E; subst; congruence).
    rewrite (proj2 (Z.eqb_neq r 0) (NC 0 eq_refl)), (proj2 (Z.eqb_neq r 2) (NC 2 eq_refl)),
            (proj2 (Z.eqb_neq r 6) (NC 6 eq_refl)), (proj2 (Z.eqb_neq r 7) (NC 7 eq_refl)). reflexivity.
  - cbn [app]. erewrite (MID pushed); [|reflexivity|reflexivity|reflexivity|reflexivity|reflexivity|exact C|reflexivity]. cbn [app].
    apply FIN; try reflexivity. intros r H. cbn [mr]. rewrite H. unfold upd.
    assert (NC : forall x, caller_saved x = true -> r <> x) by (intros x Hx E; subst; congruence).
    rewrite (proj2 (Z.eqb_neq r 0) (NC 0 eq_refl)), (proj2 (Z.eqb_neq r 2) (NC 2 eq_refl)),
            (proj2 (Z.eqb_neq r 6) (NC 6 eq_refl)), (proj2 (Z.eqb_neq r 7) (NC 7 eq_refl)). reflexivity.
Qed.

Lemma saved_regs_range : forall live r, List.In r (saved_regs live) -> List.In r [6; 7; 2; 8; 9; 10; 11].
Proof.
  intros live r H. unfold saved_regs in H. apply in_flat_map in H. destruct H as (t & HT & H).
  cbn [List.In] in HT.
  repeat (destruct HT as [<-|HT];
          [destruct (Z.testbit live _); [|contradiction]; vm_compute tmp_reg in H; destruct H as [<-|[]];
           cbn [List.In]; repeat (first [left; reflexivity | right])|]).
  contradiction.
Qed.

Lemma must_keep_cases : forall live r, must_keep live r = true -> r <> 5 ->
  r <> 0 /\ (List.In r (saved_regs live) \/ caller_saved r = false).
Proof.
  intros live r H N5. unfold must_keep in H. apply orb_prop in H. destruct H as [H|H].
  - unfold pinned in H. repeat (apply orb_prop in H; destruct H as [H|H]); apply Z.eqb_eq in H; subst;
      try contradiction; (split; [discriminate|right; reflexivity]).
  - apply existsb_exists in H. destruct H as (t & HT & H). cbn [List.In] in HT.
    assert (G : forall t0 r0, tmp_reg t0 = Some r0 -> (r0 =? r) && Z.testbit live t0 = true ->
                List.In t0 [4; 5; 6; 7; 8; 9; 10] -> List.In r (saved_regs live)).
    { intros t0 r0 TR HB HI. apply andb_prop in HB. destruct HB as [E B]. apply Z.eqb_eq in E. subst r0.
      unfold saved_regs. apply in_flat_map. exists t0. split; [exact HI|]. rewrite B, TR. left. reflexivity. }
    repeat (destruct HT as [<-|HT];
            [first [ (* callee-saved home *)
                     vm_compute tmp_reg in H; apply andb_prop in H; destruct H as [H _]; apply Z.eqb_eq in H; subst;
                     split; [discriminate|right; reflexivity]
                   | (* caller-saved home, live *)
                     split; [vm_compute tmp_reg in H; apply andb_prop in H; destruct H as [H _]; apply Z.eqb_eq in H; subst; discriminate
                            |left; match type of H with context [tmp_reg ?t0] => eapply (G t0) end; [reflexivity|exact H|cbn [List.In]; repeat (first [left; reflexivity | right])]] ]|]).
    contradiction.
Qed.

Definition steps (pre : list mins) (st : mst) : mst := fold_left (fun s i => fst (step s i)) pre st.

Lemma run_prefix_jb : forall pre rest st, forallb (fun i => negb (is_jb i)) pre = true ->
  run (pre ++ MJb :: rest) st = if mbelow (steps pre st) then (steps pre st, true) else run rest (steps pre st).
Proof.
  induction pre as [|i pre IH]; intros rest st H.
  - cbn [app steps fold_left]. rewrite run_cons. reflexivity.
  - cbn [forallb] in H. apply andb_prop in H. destruct H as [H1 H2]. apply negb_true_iff in H1.
    cbn [app]. rewrite run_cons_noexit by exact H1. rewrite (IH rest _ H2). reflexivity.
Qed.

(** the probe: move, compute the probed index, compare it (unsigned) with the size *)
Definition probe_code (sz sh d probe : Z) : list mins :=
  [MAddRbp (sz * d); MLeaRaxRbp (sz * probe); MSubRaxBase] ++ (if sz =? 1 then [] else [MSarRax sh]) ++ [MCmpRaxSize].

Lemma probe_prefix : forall sz sh d probe st,
  let idx := (mr st 5 + sz * d + sz * probe - mB st) / (if sz =? 1 then 1 else 2 ^ sh) in
  let stA := steps (probe_code sz sh d probe) st in
  mr stA 0 = idx /\ mr stA 5 = mr st 5 + sz * d /\ (forall r, r <> 0 -> r <> 5 -> mr stA r = mr st r) /\
  mB stA = mB st /\ mS stA = mS st /\ mO stA = mO st /\ mk stA = mk st /\ mcalls stA = mcalls st /\
  mbelow stA = (idx mod 2 ^ 64 <? mS st mod 2 ^ 64).
Proof.
  intros sz sh d probe st idx stA.
  assert (UN : forall (f : Z -> Z) k v r, r <> k -> upd f k v r = f r)
    by (intros f k v r Hk; unfold upd; destruct (r =? k) eqn:E; [apply Z.eqb_eq in E; contradiction|reflexivity]).
  assert (US : forall (f : Z -> Z) k v, upd f k v k = v) by (intros; unfold upd; rewrite Z.eqb_refl; reflexivity).
  subst stA idx. unfold probe_code, steps. destruct (sz =? 1) eqn:S1;
    cbn [app fold_left mstep fst mset mr mB mS mO mk mcalls mbelow];
    repeat first [rewrite US | rewrite (UN _ 0 _ 5) by discriminate]; rewrite ?Z.div_1_r;
    (split; [reflexivity|]); (split; [reflexivity|]); (split; [intros r N0 N5; rewrite !UN by assumption; reflexivity|]);
    repeat split; reflexivity.
Qed.

Theorem mov_template_sound : forall sz sh d probe live fn st, mk st = [] -> mcalls st = [] ->
  let idx := (mr st 5 + sz * d + sz * probe - mB st) / (if sz =? 1 then 1 else 2 ^ sh) in
  let below := (idx mod 2 ^ 64 <? mS st mod 2 ^ 64) in
  exists stf, run (mov_template sz sh d probe live fn) st = (stf, below) /\
    if below
    then mr stf 5 = mr st 5 + sz * d /\ mB stf = mB st /\ mS stf = mS st /\ mO stf = mO st /\
         mk stf = [] /\ mcalls stf = [] /\ (forall r, r <> 0 -> r <> 5 -> mr stf r = mr st r)
    else (let '(b', s', o') := ext (mB st, mS st, idx) in
          mB stf = b' /\ mS stf = s' /\ mO stf = o' /\ mr stf 5 = b' + o' * sz + - (sz * probe)) /\
         mcalls stf = [(mr st 3, 0, 1)] /\ mk stf = [] /\
         (forall r, must_keep live r = true -> r <> 5 -> mr stf r = mr st r).
Proof.
  intros sz sh d probe live fn st K C idx below.
  pose proof (probe_prefix sz sh d probe st) as PP. cbv zeta in PP. fold idx in PP.
  set (stA := steps (probe_code sz sh d probe) st) in *.
  destruct PP as (A0 & A5 & AR & AB & AS & AO & AK & AC & ABL). fold below in ABL.
  assert (SPLIT : mov_template sz sh d probe live fn =
            probe_code sz sh d probe ++ MJb :: MStoreOff :: map MPush (saved_regs live) ++
              (if Nat.odd (length (saved_regs live)) then [MSubRsp] else []) ++
              [MMovRR 7 3; MMovI 6 0; MMovI 2 1; MMovI 0 fn; MCall 0] ++
              (if Nat.odd (length (saved_regs live)) then [MAddRsp] else []) ++
              map MPop (rev (saved_regs live)) ++ [MLoadRbpBase; MLoadRaxOff; MLeaRbpIdx sz (- (sz * probe))]).
  { unfold mov_template, probe_code. rewrite <- !app_assoc. reflexivity. }
  rewrite SPLIT, run_prefix_jb.
  2:{ unfold probe_code. destruct (sz =? 1); reflexivity. }
  fold stA. rewrite ABL. destruct below eqn:BL.
  - exists stA. split; [reflexivity|]. rewrite A5, AB, AS, AO, AK, AC, K, C. repeat split; try reflexivity. exact AR.
  - destruct (slow_path (saved_regs live) (Nat.odd (length (saved_regs live))) fn sz (- (sz * probe)) stA
                (eq_trans AK K) (eq_trans AC C)) as (stf & R & F & CL & KK & RR).
    { intros r Hr. apply saved_regs_range in Hr. cbn [List.In] in Hr. split; intros E; subst; intuition discriminate. }
    exists stf. split; [exact R|]. rewrite AB, AS, A0 in F. split; [exact F|].
    split; [rewrite CL; rewrite (AR 3) by discriminate; reflexivity|]. split; [exact KK|].
    intros r MK N5. destruct (must_keep_cases live r MK N5) as [N0 HC]. rewrite (RR r N0 N5 HC). apply AR; assumption.
Qed.
End Run.

(** ** the checker, and the reading of the result in cell indices *)
Lemma width_cases : forall w, ((w =? 8) || (w =? 16) || (w =? 32) || (w =? 64)) = true ->
  (w = 8 /\ w / 8 = 1) \/ (w = 16 /\ w / 8 = 2) \/ (w = 32 /\ w / 8 = 4) \/ (w = 64 /\ w / 8 = 8).
Proof.
  intros w H. repeat (apply orb_prop in H; destruct H as [H|H]); apply Z.eqb_eq in H; subst; cbn; tauto.
Qed.

Lemma unsigned_below : forall idx S, - 2 ^ 63 <= idx < 2 ^ 63 -> 0 <= S < 2 ^ 63 ->
  (idx mod 2 ^ 64 <? S mod 2 ^ 64) = ((0 <=? idx) && (idx <? S)).
Proof.
  intros idx S Hi HS. rewrite (Z.mod_small S) by (change (2 ^ 64) with (2 * 2 ^ 63); lia).
  destruct (Z_lt_le_dec idx 0) as [N|P].
  - replace (idx mod 2 ^ 64) with (idx + 2 ^ 64).
    + destruct (0 <=? idx) eqn:A; [apply Z.leb_le in A; lia|]. cbn [andb]. apply Z.ltb_ge. change (2 ^ 64) with (2 * 2 ^ 63). lia.
    + symmetry. replace idx with (idx + 2 ^ 64 + (-1) * 2 ^ 64) at 1 by lia. rewrite Z_mod_plus_full.
      apply Z.mod_small. change (2 ^ 64) with (2 * 2 ^ 63). lia.
  - rewrite (Z.mod_small idx) by (change (2 ^ 64) with (2 * 2 ^ 63); lia).
    destruct (0 <=? idx) eqn:A; [reflexivity|apply Z.leb_gt in A; lia].
Qed.

Theorem mov_ok_sound : forall w d mn mx live code, mov_ok w (MovP d) mn mx live code = true ->
  forall havoc ext st q, mk st = [] -> mcalls st = [] -> mr st 5 = mB st + (w / 8) * q ->
  let probe := if d <? 0 then mn else mx in
  let idx := q + d + probe in
  let below := (idx mod 2 ^ 64 <? mS st mod 2 ^ 64) in
  exists stf, mrun havoc ext code st = (stf, below) /\
    if below
    then mr stf 5 = mB st + (w / 8) * (q + d) /\ mB stf = mB st /\ mS stf = mS st /\ mO stf = mO st /\
         mk stf = [] /\ mcalls stf = [] /\ (forall r, r <> 0 -> r <> 5 -> mr stf r = mr st r)
    else (let '(b', s', o') := ext (mB st, mS st, idx) in
          mB stf = b' /\ mS stf = s' /\ mO stf = o' /\ mr stf 5 = b' + (w / 8) * (o' - probe)) /\
         mcalls stf = [(mr st 3, 0, 1)] /\ mk stf = [] /\
         (forall r, must_keep live r = true -> r <> 5 -> mr stf r = mr st r).
Proof.
  intros w d mn mx live code H havoc ext st q K C AL probe idx below.
  unfold mov_ok in H. apply andb_prop in H. destruct H as [HW HC]. apply code_eqb_eq in HC.
  set (sz := w / 8) in *.
  set (sh := if w =? 8 then 0 else if w =? 16 then 1 else if w =? 32 then 2 else 3) in *.
  fold probe in HC. rewrite HC.
  assert (SZ : (if sz =? 1 then 1 else 2 ^ sh) = sz /\ 0 < sz).
  { destruct (width_cases w HW) as [[-> E]|[[-> E]|[[-> E]|[-> E]]]]; subst sz sh; rewrite E; cbn; split; lia. }
  destruct SZ as [SZ SP].
  destruct (mov_template_sound havoc ext sz sh d probe live (find_fn code) st K C) as (stf & R & F).
  rewrite SZ in R, F.
  assert (IDX : (mr st 5 + sz * d + sz * probe - mB st) / sz = idx).
  { rewrite AL. replace (mB st + sz * q + sz * d + sz * probe - mB st) with (idx * sz) by (subst idx; ring).
    apply Z.div_mul. lia. }
  rewrite IDX in R, F. fold below in R, F.
  exists stf. split; [exact R|]. destruct below.
  - destruct F as (F5 & F). split; [|exact F]. rewrite F5, AL. ring.
  - destruct F as (F1 & F). split; [|exact F]. destruct (ext (mB st, mS st, idx)) as [[b' s'] o'].
    destruct F1 as (G1 & G2 & G3 & G5). repeat split; try assumption. rewrite G5. ring.
Qed.

(** ** the budget check of limited mode: the same decision as [BC.bc_limit 1] *)
Theorem limit_ok_sound : forall code st, limit_ok code = true -> 0 <= l_budget st < 2 ^ 64 ->
  snd (lrun code st) = (l_budget st <=? 1) /\
  (snd (lrun code st) = false -> l_budget (fst (lrun code st)) = l_budget st - 1).
Proof.
  intros code st H B. destruct code as [|a [|b [|c [|d [|e [|x l]]]]]]; try discriminate.
  cbn [limit_ok] in H. repeat (apply andb_prop in H; destruct H as [H ?]).
  destruct a; try discriminate. destruct b as [|c2| | |]; try discriminate. destruct c; try discriminate.
  destruct d; try discriminate. destruct e; try discriminate.
  match goal with E : lins_eqb (LCmpRax c2) (LCmpRax 2) = true |- _ => cbn in E; apply Z.eqb_eq in E; subst c2 end.
  cbn [lrun lstep l_rax l_budget l_below].
  rewrite (Z.mod_small (l_budget st)) by exact B. change (2 mod 2 ^ 64) with 2.
  destruct (l_budget st <? 2) eqn:L.
  - cbn [snd fst]. apply Z.ltb_lt in L. split; [symmetry; apply Z.leb_le; lia|intros D; discriminate].
  - cbn [snd fst l_budget]. apply Z.ltb_ge in L. split; [symmetry; apply Z.leb_gt; lia|reflexivity].
Qed.

(** ** the frame: every stack temporary has its slot inside the reserved area and the stack pointer
    is 16-byte aligned in the body (which is what the call templates' "even number of words pushed"
    is relative to) *)
Theorem frame_ok_sound : forall temps pushes sub_bytes, frame_ok temps pushes sub_bytes = true ->
  forall rsp0, (rsp0 + 8) mod 16 = 0 ->
  (rsp0 - 8 * pushes - sub_bytes) mod 16 = 0 /\
  (forall t, 0 <= t < temps -> 0 <= 8 * t /\ 8 * t + 8 <= sub_bytes).
Proof.
  intros temps pushes sub_bytes H rsp0 A. unfold frame_ok in H.
  apply andb_prop in H. destruct H as [H H4]. apply andb_prop in H. destruct H as [H H3].
  apply andb_prop in H. destruct H as [H1 H2].
  apply Z.eqb_eq in H1. apply Z.leb_le in H2. apply Z.leb_le in H3. apply Z.eqb_eq in H4.
  split.
  - replace (rsp0 - 8 * pushes - sub_bytes) with ((rsp0 + 8) + (-1) * (8 + 8 * pushes + sub_bytes)) by ring.
    rewrite Z.add_mod, A, Z.mul_mod, H4 by lia. reflexivity.
  - intros t Ht. lia.
Qed.

Theorem mov_unsafe_ok_sound : forall w d code havoc ext st, mov_unsafe_ok w (MovP d) code = true ->
  mrun havoc ext code st = (mset st 5 (mr st 5 + w / 8 * d), false).
Proof.
  intros w d code havoc ext st H. unfold mov_unsafe_ok in H. apply andb_prop in H. destruct H as [_ H].
  apply code_eqb_eq in H. subst code. reflexivity.
Qed.

(** * BCRawProofs.v — the one-sided probe protocol of [BCRaw.v] never dereferences outside the
    buffer and behaves like an unbounded zero-initialised array (property C06, memory protocol). *)
From Coq Require Import ZArith List Bool Lia.
From HPBF Require Import Tape TapeProofs BCRaw.
Import ListNotations.
Open Scope Z_scope.

Section Protocol.
Variable pol : policy.
Hypothesis HP : PolicyOK pol.
Variables mn mx : Z.
Hypothesis Hmn : - MAG <= mn <= 0.
Hypothesis Hmx : 0 <= mx < MAG.

(** the window is inside the buffer *)
Definition WInv (t : rtape) (s : tspec) (base : Z) : Prop :=
  Inv t s base /\ 0 <= s_pos s + mn + base /\ s_pos s + mx + base < t_size t.

Lemma forget_acc : forall t s base extra, Inv t {| s_cells := s_cells s; s_pos := s_pos s; s_acc := extra :: s_acc s |} base ->
  Inv t s base.
Proof.
  intros t s base extra [A1 A2 A3 A4 A5 A6]. constructor; cbn in *; try assumption.
  intros k Hk. apply A6. unfold in_acc in Hk. rewrite Hk. apply orb_true_r.
Qed.

Lemma enter_winv : forall t s base ok t', Inv t s base ->
  t_make_accessible pol ok t mn (mx + 1) = TOk t' -> exists base', WInv t' s base'.
Proof.
  intros t s base ok t' HI M. destruct (grow_inv pol t s base mn (mx + 1) ok t' HP HI M) as (base' & HI' & R1 & R2).
  exists base'. split; [eapply forget_acc; exact HI'|]. lia.
Qed.

Lemma get_in_window : forall t s base k, WInv t s base -> mn <= k <= mx ->
  r_get t k = TOk (s_cells s (s_pos s + k)).
Proof.
  intros t s base k (HI & L & U) Hk. unfold r_get.
  assert (Ko : - MAG <= k <= MAG) by lia.
  pose proof (check_spec t s base HI k Ko) as C. unfold t_check in C. rewrite C.
  assert (A : (0 <=? s_pos s + k + base) = true) by (apply Z.leb_le; lia).
  assert (B : (s_pos s + k + base <? t_size t) = true) by (apply Z.ltb_lt; lia).
  rewrite A, B. cbn [andb]. f_equal.
  pose proof (read_spec t s base HI k Ko) as RS. unfold t_read in RS.
  pose proof C as C'. rewrite A, B in C'. cbn [andb] in C'. rewrite C' in RS. exact RS.
Qed.

Lemma set_in_window : forall t s base k v, WInv t s base -> mn <= k <= mx ->
  exists t', r_set t k v = TOk t' /\
    WInv t' {| s_cells := fun i => if i =? s_pos s + k then v else s_cells s i; s_pos := s_pos s; s_acc := s_acc s |} base.
Proof.
  intros t s base k v (HI & L & U) Hk. assert (Ko : - MAG <= k <= MAG) by lia.
  destruct (raw_write_inv t s base HI k v Ko ltac:(lia)) as (t' & W & HI').
  exists t'. split; [exact W|]. split.
  - apply (forget_acc t' {| s_cells := fun i => if i =? s_pos s + k then v else s_cells s i; s_pos := s_pos s; s_acc := s_acc s |}
             base (s_pos s + k, s_pos s + k + 1)). exact HI'.
  - cbn [s_pos]. unfold r_set, t_raw_write in W. destruct ((0 <=? t_ptr t k) && (t_ptr t k <? t_size t)); [|discriminate].
    injection W as <-. cbn [t_size]. lia.
Qed.

Lemma mov_winv : forall t s base d ok r, WInv t s base -> - MAG <= s_pos s + d <= MAG ->
  r_probe pol mn mx ok (t_mov t d) d = r ->
  match r with
  | TOk t' => exists base', WInv t' {| s_cells := s_cells s; s_pos := s_pos s + d; s_acc := s_acc s |} base'
  | RawOob _ => False
  | _ => True
  end.
Proof.
  intros t s base d ok r (HI & L & U) Hd HR.
  pose proof (mov_inv t s base HI d Hd) as HI1.
  set (s1 := {| s_cells := s_cells s; s_pos := s_pos s + d; s_acc := s_acc s |}) in *.
  unfold r_probe in HR.
  destruct (t_check (t_mov t d) (if d <? 0 then mn else mx)) eqn:C.
  - subst r. exists base. split; [exact HI1|]. cbn [s_pos s1 t_mov t_size].
    destruct (d <? 0) eqn:D.
    + apply Z.ltb_lt in D. rewrite (check_spec _ _ _ HI1 mn ltac:(lia)) in C. cbn [s_pos s1 t_mov t_size] in C.
      apply andb_prop in C. destruct C as [C1 C2]. apply Z.leb_le in C1. lia.
    + apply Z.ltb_ge in D. rewrite (check_spec _ _ _ HI1 mx ltac:(lia)) in C. cbn [s_pos s1 t_mov t_size] in C.
      apply andb_prop in C. destruct C as [C1 C2]. apply Z.ltb_lt in C2. lia.
  - destruct r as [t'|i| |]; try exact I.
    + destruct (enter_winv _ _ _ _ _ HI1 HR) as [base' W]. exists base'. exact W.
    + exact (make_accessible_no_oob _ _ _ _ _ _ HR).
Qed.

(** the JIT's variant: only the probed cell is requested; the other end of the window stays inside
    because growth never reduces the room on either side *)
Lemma movj_winv : forall t s base d ok r, WInv t s base -> - MAG <= s_pos s + d <= MAG ->
  r_probe_jit pol mn mx ok (t_mov t d) d = r ->
  match r with
  | TOk t' => exists base', WInv t' {| s_cells := s_cells s; s_pos := s_pos s + d; s_acc := s_acc s |} base'
  | RawOob _ => False
  | _ => True
  end.
Proof.
  intros t s base d ok r (HI & L & U) Hd HR.
  pose proof (mov_inv t s base HI d Hd) as HI1.
  set (s1 := {| s_cells := s_cells s; s_pos := s_pos s + d; s_acc := s_acc s |}) in *.
  unfold r_probe_jit in HR.
  destruct (t_check (t_mov t d) (if d <? 0 then mn else mx)) eqn:C.
  - subst r. exists base. split; [exact HI1|]. cbn [s_pos s1 t_mov t_size].
    destruct (d <? 0) eqn:D.
    + apply Z.ltb_lt in D. rewrite (check_spec _ _ _ HI1 mn ltac:(lia)) in C. cbn [s_pos s1 t_mov t_size] in C.
      apply andb_prop in C. destruct C as [C1 C2]. apply Z.leb_le in C1. lia.
    + apply Z.ltb_ge in D. rewrite (check_spec _ _ _ HI1 mx ltac:(lia)) in C. cbn [s_pos s1 t_mov t_size] in C.
      apply andb_prop in C. destruct C as [C1 C2]. apply Z.ltb_lt in C2. lia.
  - destruct r as [t'|i| |]; try exact I.
    + destruct (grow_inv_mono pol (t_mov t d) s1 base _ _ ok t' HP HI1 HR) as (base' & HI' & (R1 & R2) & M1 & M2).
      exists base'. split; [eapply forget_acc; exact HI'|]. cbn [s_pos s1 t_mov t_size] in *.
      destruct (d <? 0) eqn:D; [apply Z.ltb_lt in D|apply Z.ltb_ge in D]; lia.
    + exact (make_accessible_no_oob _ _ _ _ _ _ HR).
Qed.

Lemma run_safe : forall ops allocs t s base, WInv t s base -> rops_ok mn mx ops (s_pos s) = true ->
  match r_run pol mn mx ops allocs t with
  | TOk (log, _) => vals_of log = r_spec ops (s_cells s) (s_pos s)
  | RawOob _ => False
  | _ => True
  end.
Proof.
  induction ops as [|op rest IH]; intros allocs t s base W OK; [reflexivity|].
  cbn [r_run]. destruct op as [|d|d|d|k|k v|a b]; cbn [rops_ok r_spec] in *; try discriminate.
  - destruct (if grows t mn (mx + 1) then next_alloc allocs else (true, allocs)) as [ok allocs'].
    destruct (t_make_accessible pol ok t mn (mx + 1)) as [t'|i| |] eqn:M; try exact I.
    + destruct W as (HI & _). destruct (enter_winv _ _ _ _ _ HI M) as [base' W']. apply (IH allocs' t' s base' W' OK).
    + exact (make_accessible_no_oob _ _ _ _ _ _ M).
  - apply andb_prop in OK. destruct OK as [Sm OK]. apply small_spec in Sm.
    destruct (if grows (t_mov t d) mn (mx + 1) then next_alloc allocs else (true, allocs)) as [ok allocs'].
    pose proof (mov_winv t s base d ok _ W Sm eq_refl) as MW.
    destruct (r_probe pol mn mx ok (t_mov t d) d) as [t'|i| |]; try exact I; try contradiction.
    destruct MW as [base' W']. pose proof (IH allocs' t' _ base' W' OK) as R.
    destruct (r_run pol mn mx rest allocs' t') as [[vs tf]|i| |]; exact R.
  - apply andb_prop in OK. destruct OK as [Sm OK]. apply small_spec in Sm.
    destruct (if grows (t_mov t d) (if d <? 0 then mn else mx) ((if d <? 0 then mn else mx) + 1) then next_alloc allocs else (true, allocs)) as [ok allocs'].
    pose proof (movj_winv t s base d ok _ W Sm eq_refl) as MW.
    destruct (r_probe_jit pol mn mx ok (t_mov t d) d) as [t'|i| |]; try exact I; try contradiction.
    destruct MW as [base' W']. pose proof (IH allocs' t' _ base' W' OK) as R.
    destruct (r_run pol mn mx rest allocs' t') as [[vs tf]|i| |]; exact R.
  - apply andb_prop in OK. destruct OK as [Kb OK]. apply andb_prop in Kb. destruct Kb as [K1 K2].
    apply Z.leb_le in K1. apply Z.leb_le in K2.
    rewrite (get_in_window t s base k W (conj K1 K2)).
    pose proof (IH allocs t s base W OK) as R. destruct (r_run pol mn mx rest allocs t) as [[vs tf]|i| |]; try exact R.
    cbn [vals_of]. rewrite R. reflexivity.
  - apply andb_prop in OK. destruct OK as [Kb OK]. apply andb_prop in Kb. destruct Kb as [K1 K2].
    apply Z.leb_le in K1. apply Z.leb_le in K2.
    destruct (set_in_window t s base k v W (conj K1 K2)) as (t' & E & W'). rewrite E.
    apply (IH allocs t' _ base W' OK).
Qed.

(** from the empty tape, after the entry sequence *)
Theorem protocol_safe : forall ops allocs, rops_ok mn mx ops 0 = true ->
  match r_run pol mn mx (REnter :: ops) allocs rtape0 with
  | TOk (log, _) => vals_of log = r_spec ops (fun _ => 0) 0
  | RawOob _ => False
  | _ => True
  end.
Proof.
  intros ops allocs OK. cbn [r_run].
  destruct (if grows rtape0 mn (mx + 1) then next_alloc allocs else (true, allocs)) as [ok allocs'].
  destruct (t_make_accessible pol ok rtape0 mn (mx + 1)) as [t'|i| |] eqn:M; try exact I.
  - destruct (enter_winv _ _ _ _ _ inv0 M) as [base' W']. apply (run_safe ops allocs' t' spec0 base' W' OK).
  - exact (make_accessible_no_oob _ _ _ _ _ _ M).
Qed.
(** the same from any valid tape state (a context that is reused: whatever the tape API did before,
    [Inv] holds by the theorems of C09), after the entry sequence *)
Theorem protocol_safe_from : forall ops allocs t s base, Inv t s base -> rops_ok mn mx ops (s_pos s) = true ->
  match r_run pol mn mx (REnter :: ops) allocs t with
  | TOk (log, _) => vals_of log = r_spec ops (s_cells s) (s_pos s)
  | RawOob _ => False
  | _ => True
  end.
Proof.
  intros ops allocs t s base HI OK. cbn [r_run].
  destruct (if grows t mn (mx + 1) then next_alloc allocs else (true, allocs)) as [ok allocs'].
  destruct (t_make_accessible pol ok t mn (mx + 1)) as [t'|i| |] eqn:M; try exact I.
  - destruct (enter_winv _ _ _ _ _ HI M) as [base' W']. apply (run_safe ops allocs' t' s base' W' OK).
  - exact (make_accessible_no_oob _ _ _ _ _ _ M).
Qed.
(** a reused context: some range [a, b) was made accessible before the program is entered *)
Theorem protocol_safe_reused : forall a b ops allocs, rops_ok mn mx ops 0 = true ->
  match r_run pol mn mx (RPre a b :: REnter :: ops) allocs rtape0 with
  | TOk (log, _) => vals_of log = r_spec ops (fun _ => 0) 0
  | RawOob _ => False
  | _ => True
  end.
Proof.
  intros a b ops allocs OK. cbn [r_run].
  destruct (if grows rtape0 a b then next_alloc allocs else (true, allocs)) as [ok allocs'].
  destruct (t_make_accessible pol ok rtape0 a b) as [t'|i| |] eqn:M; try exact I.
  - destruct (grow_inv pol rtape0 spec0 0 a b ok t' HP inv0 M) as (base' & HI' & _).
    apply (protocol_safe_from ops allocs' t' _ base' (forget_acc _ _ _ _ HI') OK).
  - exact (make_accessible_no_oob _ _ _ _ _ _ M).
Qed.
End Protocol.

(** ** unchecked mode *)
Section Unchecked.
Variable pol : policy.
Hypothesis HP : PolicyOK pol.
Variable m : Z.
Hypothesis Hm : 0 <= m < MAG.

(** the cells [-m .. m] are inside the buffer *)
Definition UInv (t : rtape) (s : tspec) (base : Z) : Prop :=
  Inv t s base /\ 0 <= - m + base /\ m + base < t_size t.

Lemma urun_safe : forall ops allocs t s base, UInv t s base -> uops_ok m ops (s_pos s) = true ->
  match r_run pol 0 0 ops allocs t with
  | TOk (log, _) => vals_of log = r_spec ops (s_cells s) (s_pos s)
  | RawOob _ => False
  | _ => True
  end.
Proof.
  induction ops as [|op rest IH]; intros allocs t s base W OK; [reflexivity|].
  cbn [r_run]. destruct op as [|d|d|d|k|k v|a b]; cbn [uops_ok r_spec] in *; try discriminate.
  - apply andb_prop in OK. destruct OK as [Sm OK]. apply small_spec in Sm. destruct W as (HI & L & U).
    apply (IH allocs (t_mov t d) {| s_cells := s_cells s; s_pos := s_pos s + d; s_acc := s_acc s |} base); [|exact OK].
    split; [apply (mov_inv t s base HI d Sm)|]. cbn [t_mov t_size]. lia.
  - apply andb_prop in OK. destruct OK as [Kb OK]. apply andb_prop in Kb. destruct Kb as [Kb Ks].
    apply andb_prop in Kb. destruct Kb as [K1 K2]. apply Z.leb_le in K1. apply Z.leb_le in K2. apply small_spec in Ks.
    destruct W as (HI & L & U).
    assert (G : r_get t k = TOk (s_cells s (s_pos s + k))).
    { unfold r_get. pose proof (check_spec t s base HI k Ks) as C. unfold t_check in C. rewrite C.
      assert (A : (0 <=? s_pos s + k + base) = true) by (apply Z.leb_le; lia).
      assert (B : (s_pos s + k + base <? t_size t) = true) by (apply Z.ltb_lt; lia).
      rewrite A, B. cbn [andb]. f_equal.
      pose proof (read_spec t s base HI k Ks) as RS. unfold t_read in RS.
      pose proof C as C'. rewrite A, B in C'. cbn [andb] in C'. rewrite C' in RS. exact RS. }
    rewrite G. pose proof (IH allocs t s base (conj HI (conj L U)) OK) as R.
    destruct (r_run pol 0 0 rest allocs t) as [[vs tf]|i| |]; try exact R. cbn [vals_of]. rewrite R. reflexivity.
  - apply andb_prop in OK. destruct OK as [Kb OK]. apply andb_prop in Kb. destruct Kb as [Kb Ks].
    apply andb_prop in Kb. destruct Kb as [K1 K2]. apply Z.leb_le in K1. apply Z.leb_le in K2. apply small_spec in Ks.
    destruct W as (HI & L & U).
    destruct (raw_write_inv t s base HI k v Ks ltac:(lia)) as (t' & Wr & HI').
    unfold r_set. rewrite Wr.
    apply (IH allocs t' {| s_cells := fun i => if i =? s_pos s + k then v else s_cells s i; s_pos := s_pos s; s_acc := s_acc s |} base); [|exact OK].
    split; [eapply forget_acc; exact HI'|].
    unfold t_raw_write in Wr. destruct ((0 <=? t_ptr t k) && (t_ptr t k <? t_size t)); [|discriminate].
    injection Wr as <-. cbn [t_size]. lia.
Qed.

(** the caller pre-allocates [-m, m]; the interpreter makes its window accessible on entry (any
    window inside the region changes nothing); then raw moves and raw accesses *)
Theorem unchecked_safe : forall ops allocs, uops_ok m ops 0 = true ->
  match r_run pol 0 0 (RPre (- m) (m + 1) :: ops) allocs rtape0 with
  | TOk (log, _) => vals_of log = r_spec ops (fun _ => 0) 0
  | RawOob _ => False
  | _ => True
  end.
Proof.
  intros ops allocs OK. cbn [r_run].
  destruct (if grows rtape0 (- m) (m + 1) then next_alloc allocs else (true, allocs)) as [ok allocs'].
  destruct (t_make_accessible pol ok rtape0 (- m) (m + 1)) as [t'|i| |] eqn:M; try exact I.
  - destruct (grow_inv pol rtape0 spec0 0 (- m) (m + 1) ok t' HP inv0 M) as (base' & HI' & R1 & R2).
    apply (urun_safe ops allocs' t' spec0 base'); [|exact OK].
    split; [eapply forget_acc; exact HI'|]. cbn [spec0 s_pos] in *. lia.
  - exact (make_accessible_no_oob _ _ _ _ _ _ M).
Qed.
End Unchecked.

(** ** the JIT's slow path is the protocol's growth request.
    The machine code (theorem [C03_mov_template]) stores the index of the probed cell as the
    current offset, calls [make_accessible(0, 1)] and moves back by the probe offset; on the tape
    model that is [make_accessible(probe, probe + 1)] at the unmoved pointer — the request of
    [BCRaw.r_probe_jit]. *)
Section JitSlowPath.
Variable pol : policy.

Lemma jit_slow_path : forall t s base p ok, Inv t s base -> - MAG <= p <= MAG -> - MAG <= s_pos s + p <= MAG ->
  match t_make_accessible pol ok (t_mov t p) 0 1, t_make_accessible pol ok t p (p + 1) with
  | TOk t1, TOk t2 => t_mov t1 (- p) = t2
  | TooLarge, TooLarge | AllocFail, AllocFail => True
  | _, _ => False
  end.
Proof.
  intros t s base p ok HI Hp Hq.
  pose proof (mov_inv t s base HI p Hq) as HI1.
  unfold t_make_accessible.
  rewrite (signed_off _ _ _ HI1), (signed_off _ _ _ HI). cbn [s_pos t_mov t_size t_buf t_off].
  replace (s_pos s + p + base + 0) with (s_pos s + base + p) by lia.
  replace (s_pos s + p + base + 1) with (s_pos s + base + (p + 1)) by lia.
  destruct ((needed_below (s_pos s + base + p) =? 0) && (needed_above (s_pos s + base + (p + 1)) (t_size t) =? 0)).
  - unfold t_mov. cbn [t_buf t_size t_off]. destruct t as [buf size off]. cbn [Tape.t_buf Tape.t_size Tape.t_off] in *.
    f_equal. rewrite wrap_wrap_add. replace (off + p + - p) with off by lia.
    pose proof (inv_off _ _ _ HI) as HO. cbn in HO. rewrite HO. unfold wrap64. apply Z.mod_mod. rewrite U64_val. lia.
  - destruct (pol (t_size t) (needed_below (s_pos s + base + p)) (needed_above (s_pos s + base + (p + 1)) (t_size t))) as [ns ab].
    destruct (SIZE_LIMIT <=? ns); [exact I|]. destruct (negb ok); [exact I|].
    unfold t_mov. cbn [t_buf t_size t_off]. f_equal.
    rewrite wrap_wrap_add. replace (wrap64 (t_off t + p) + ab + - p) with (wrap64 (t_off t + p) + (ab - p)) by lia.
    rewrite wrap_wrap_add. f_equal. lia.
Qed.
End JitSlowPath.

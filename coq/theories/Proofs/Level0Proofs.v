(** * Level0Proofs.v — the level-0 pipeline is correct: for every valid source text, the IR that
    [Program::parse] produces (model: [Parse.parse]), run by the IR interpreter (model:
    [IR.ir_exec]), yields the events of the canonical semantics [BF.bf_exec], whenever the
    canonical run terminates or is stopped by an I/O failure (properties C01 and C08 at level 0,
    where [Program::optimize] is the identity).

    The parser is a one-pass compiler: it delays '+'/'-' in a per-frame buffer of pending
    increments, flushes them before '.', before loops that touch them, and at the end, and turns
    [-]-like loops into a store of zero.  The proof relates the canonical tape to the IR tape
    plus the pending increments of the frame ([R]) plus the pending increments of the enclosing
    frames that the current loop provably never touches ([ctx]). *)
From Coq Require Import ZArith List Bool Lia Arith Sorted.
From HPBF Require Import Cell IO BF Expr IR Parse Machines MachineProofs BigStepProofs InplaceProofs.
Import ListNotations.
Open Scope Z_scope.

Local Arguments Z.mul : simpl never.
Local Arguments Z.add : simpl never.
Local Arguments Z.sub : simpl never.
Local Arguments Z.pow : simpl never.
Local Arguments Z.modulo : simpl never.

(** ** arithmetic modulo 2^w *)
Section Arith.
Variable w : Z.
Hypothesis Hw : 0 <= w.

Lemma pow_pos : 0 < 2 ^ w.
Proof. apply Z.pow_pos_nonneg; lia. Qed.

Lemma norm_range : forall x, 0 <= norm w x < 2 ^ w.
Proof. intros. unfold norm. apply Z.mod_pos_bound. apply pow_pos. Qed.

Lemma norm_small : forall x, 0 <= x < 2 ^ w -> norm w x = x.
Proof. intros. unfold norm. apply Z.mod_small. assumption. Qed.

Lemma norm_norm_add_l : forall a b, norm w (norm w a + b) = norm w (a + b).
Proof. intros. unfold norm. apply Z.add_mod_idemp_l. pose proof pow_pos. lia. Qed.

Lemma norm_norm_add_r : forall a b, norm w (a + norm w b) = norm w (a + b).
Proof. intros. unfold norm. apply Z.add_mod_idemp_r. pose proof pow_pos. lia. Qed.

Lemma norm_idem : forall a, norm w (norm w a) = norm w a.
Proof. intros. unfold norm. apply Z.mod_mod. pose proof pow_pos. lia. Qed.
End Arith.

(** ** the pending-increment buffer *)
Definition keys (b : buff) : list Z := map fst b.

Lemma buff_get_set : forall b k v k2,
  buff_get (buff_set b k v) k2 = if k =? k2 then Some v else buff_get b k2.
Proof.
  induction b as [|[k' v'] b IH]; intros k v k2; cbn [buff_set buff_get].
  - reflexivity.
  - destruct (k =? k') eqn:E1.
    + apply Z.eqb_eq in E1. subst k'. cbn [buff_get]. destruct (k =? k2); reflexivity.
    + destruct (k <? k') eqn:E2; cbn [buff_get].
      * reflexivity.
      * rewrite IH. destruct (k' =? k2) eqn:E3; [|reflexivity].
        apply Z.eqb_eq in E3. subst k2. rewrite E1. reflexivity.
Qed.

Lemma buff_val_set : forall b k v k2,
  buff_val (buff_set b k v) k2 = if k =? k2 then v else buff_val b k2.
Proof. intros. unfold buff_val. rewrite buff_get_set. destruct (k =? k2); reflexivity. Qed.

Lemma keys_set : forall b k v k2, List.In k2 (keys (buff_set b k v)) <-> k2 = k \/ List.In k2 (keys b).
Proof.
  induction b as [|[k' v'] b IH]; intros k v k2; cbn [buff_set keys map fst List.In].
  - intuition.
  - destruct (k =? k') eqn:E1.
    + apply Z.eqb_eq in E1. subst k'. cbn [keys map fst List.In]. intuition.
    + destruct (k <? k'); cbn [keys map fst List.In].
      * intuition.
      * fold (keys (buff_set b k v)). rewrite IH. fold (keys b). intuition.
Qed.

Definition bsorted (b : buff) : Prop := StronglySorted Z.lt (keys b).

Lemma bsorted_set : forall b k v, bsorted b -> bsorted (buff_set b k v).
Proof.
  unfold bsorted. induction b as [|[k' v'] b IH]; intros k v S; cbn [buff_set].
  - cbn. constructor; constructor.
  - cbn [keys map fst] in S. inversion S as [|x l S' F]; subst.
    destruct (k =? k') eqn:E1.
    + apply Z.eqb_eq in E1. subst k'. cbn [keys map fst]. constructor; assumption.
    + destruct (k <? k') eqn:E2.
      * apply Z.ltb_lt in E2. cbn [keys map fst]. constructor; [exact S|].
        constructor; [exact E2|]. eapply Forall_impl; [|exact F]. intros a Ha. cbn in Ha. lia.
      * cbn [keys map fst]. fold (keys (buff_set b k v)). constructor; [apply IH; exact S'|].
        apply Forall_forall. intros x Hx. apply keys_set in Hx. apply Z.eqb_neq in E1. apply Z.ltb_ge in E2.
        destruct Hx as [->|Hx]; [lia|]. rewrite Forall_forall in F. apply F. exact Hx.
Qed.

Lemma keys_zero_all : forall b, keys (zero_all b) = keys b.
Proof. intros. unfold keys, zero_all. rewrite map_map. reflexivity. Qed.

Lemma buff_val_zero_all : forall b k, buff_val (zero_all b) k = 0.
Proof.
  intros b k. unfold buff_val. induction b as [|[k' v'] b IH]; cbn; [reflexivity|].
  destruct (k' =? k); [reflexivity|exact IH].
Qed.

Lemma buff_val_notin : forall b k, ~ List.In k (keys b) -> buff_val b k = 0.
Proof.
  intros b k. unfold buff_val. induction b as [|[k' v'] b IH]; cbn; intros N; [reflexivity|].
  destruct (k' =? k) eqn:E; [apply Z.eqb_eq in E; subst; exfalso; apply N; left; reflexivity|].
  apply IH. intros H. apply N. right. exact H.
Qed.

(** ** facts about the IR interpreter without budget *)
Definition iterminal (o : outcome irst) : Prop := match o with Done _ | Stopped _ => True | _ => False end.

Lemma ir_unlimited_outcomes : forall w e f p s,
  match ir_exec w e false f p s with Interrupted _ | Errored _ _ => False | _ => True end.
Proof.
  intros w e f. induction f as [|f IH]; intros p s; [exact I|].
  cbn [ir_exec]. destruct p as [|i rest]; [exact I|].
  destruct i as [src|dst|calcs|cond shift body once|cond shift body].
  - destruct (do_output e (ir_io s) _); [apply IH|exact I].
  - destruct (do_input e (ir_io s)); [apply IH|exact I].
  - apply IH.
  - destruct (ir_read s cond =? 0); [apply IH|].
    pose proof (IH body s) as B. destruct (ir_exec w e false f body s); try contradiction; try exact I; apply IH.
  - destruct (ir_read s cond =? 0); [apply IH|].
    pose proof (IH body s) as B. destruct (ir_exec w e false f body s); try contradiction; try exact I; apply IH.
Qed.

Lemma ir_exec_mono : forall w e f p s o, ir_exec w e false f p s = o -> iterminal o ->
  forall f', (f <= f')%nat -> ir_exec w e false f' p s = o.
Proof.
  intros w e f. induction f as [|f IH]; intros p s o H T f' L.
  - simpl in H. subst o. contradiction.
  - destruct f' as [|f']; [lia|]. cbn [ir_exec] in *.
    destruct p as [|i rest]; [exact H|].
    destruct i as [src|dst|calcs|cond shift body once|cond shift body].
    + destruct (do_output e (ir_io s) _); [apply (IH _ _ _ H T); lia|exact H].
    + destruct (do_input e (ir_io s)); [apply (IH _ _ _ H T); lia|exact H].
    + apply (IH _ _ _ H T); lia.
    + destruct (ir_read s cond =? 0); [apply (IH _ _ _ H T); lia|].
      pose proof (ir_unlimited_outcomes w e f body s) as NB.
      destruct (ir_exec w e false f body s) as [s1|s1|s1|q s1|s1] eqn:B; try contradiction.
      * rewrite (IH _ _ _ B I f' ltac:(lia)). apply (IH _ _ _ H T); lia.
      * rewrite (IH _ _ _ B I f' ltac:(lia)). exact H.
      * subst o. contradiction.
    + destruct (ir_read s cond =? 0); [apply (IH _ _ _ H T); lia|].
      pose proof (ir_unlimited_outcomes w e f body s) as NB.
      destruct (ir_exec w e false f body s) as [s1|s1|s1|q s1|s1] eqn:B; try contradiction.
      * rewrite (IH _ _ _ B I f' ltac:(lia)). apply (IH _ _ _ H T); lia.
      * rewrite (IH _ _ _ B I f' ltac:(lia)). exact H.
      * subst o. contradiction.
Qed.

Lemma ir_exec_app : forall w e f a s s1, ir_exec w e false f a s = Done s1 ->
  forall g b o, ir_exec w e false g b s1 = o -> iterminal o ->
  ir_exec w e false (f + g) (a ++ b) s = o.
Proof.
  intros w e f. induction f as [|f IH]; intros a s s1 A g b o B T; [discriminate|].
  destruct a as [|i rest].
  - cbn [ir_exec] in A. injection A as <-. cbn [app]. apply (ir_exec_mono w e g b s o B T). lia.
  - cbn [ir_exec app plus] in A |- *.
    destruct i as [src|dst|calcs|cond shift body once|cond shift body].
    + destruct (do_output e (ir_io s) _) as [u i0|i0]; [|discriminate]. eapply IH; eassumption.
    + destruct (do_input e (ir_io s)) as [u i0|i0]; [|discriminate]. eapply IH; eassumption.
    + eapply IH; eassumption.
    + destruct (ir_read s cond =? 0); [eapply IH; eassumption|].
      pose proof (ir_unlimited_outcomes w e f body s) as NB.
      destruct (ir_exec w e false f body s) as [s2|s2|s2|q s2|s2] eqn:Bd; try contradiction; try discriminate.
      rewrite (ir_exec_mono w e f body s _ Bd I (f + g)%nat ltac:(lia)).
      change (ILoop cond shift body once :: rest ++ b) with ((ILoop cond shift body once :: rest) ++ b).
      eapply IH; eassumption.
    + destruct (ir_read s cond =? 0); [eapply IH; eassumption|].
      pose proof (ir_unlimited_outcomes w e f body s) as NB.
      destruct (ir_exec w e false f body s) as [s2|s2|s2|q s2|s2] eqn:Bd; try contradiction; try discriminate.
      rewrite (ir_exec_mono w e f body s _ Bd I (f + g)%nat ltac:(lia)).
      eapply IH; eassumption.
Qed.

Lemma ir_exec_app_stop : forall w e f a s s1 b, ir_exec w e false f a s = Stopped s1 ->
  ir_exec w e false f (a ++ b) s = Stopped s1.
Proof.
  intros w e f. induction f as [|f IH]; intros a s s1 b A; [discriminate|].
  destruct a as [|i rest]; [discriminate|].
  cbn [ir_exec app] in A |- *.
  destruct i as [src|dst|calcs|cond shift body once|cond shift body].
  - destruct (do_output e (ir_io s) _) as [u i0|i0]; [apply IH; exact A|exact A].
  - destruct (do_input e (ir_io s)) as [u i0|i0]; [apply IH; exact A|exact A].
  - apply IH; exact A.
  - destruct (ir_read s cond =? 0); [apply IH; exact A|].
    destruct (ir_exec w e false f body s) as [s2|s2|s2|q s2|s2] eqn:Bd; try exact A.
    + change (ILoop cond shift body once :: rest ++ b) with ((ILoop cond shift body once :: rest) ++ b).
      apply IH; exact A.
    + change (ILoop cond shift body once :: rest ++ b) with ((ILoop cond shift body once :: rest) ++ b).
      apply IH; exact A.
  - destruct (ir_read s cond =? 0); [apply IH; exact A|].
    destruct (ir_exec w e false f body s) as [s2|s2|s2|q s2|s2] eqn:Bd; try exact A; apply IH; exact A.
Qed.

(** ** the canonical semantics as a derivation (terminating and I/O-stopped runs only), with the
    iterations of a loop as a judgement of their own *)
Definition is_loop (c : cmd) : bool := match c with Loop _ => true | _ => false end.

Inductive bs (w : Z) (e : env) : list cmd -> bfst -> outcome bfst -> Prop :=
| bs_nil : forall s, bs w e [] s (Done s)
| bs_ok : forall c rest s s1 o, is_loop c = false -> bf_simple w e c s = inl s1 ->
    bs w e rest s1 o -> bs w e (c :: rest) s o
| bs_fail : forall c rest s s1, is_loop c = false -> bf_simple w e c s = inr s1 ->
    bs w e (c :: rest) s (Stopped s1)
| bs_loop_done : forall body rest s s1 o, ls w e body s (Done s1) -> bs w e rest s1 o ->
    bs w e (Loop body :: rest) s o
| bs_loop_stop : forall body rest s s1, ls w e body s (Stopped s1) ->
    bs w e (Loop body :: rest) s (Stopped s1)
with ls (w : Z) (e : env) : list cmd -> bfst -> outcome bfst -> Prop :=
| ls_exit : forall body s, (cur s =? 0) = true -> ls w e body s (Done s)
| ls_iter : forall body s s1 o, (cur s =? 0) = false -> bs w e body s (Done s1) ->
    ls w e body s1 o -> ls w e body s o
| ls_stop : forall body s s1, (cur s =? 0) = false -> bs w e body s (Stopped s1) ->
    ls w e body s (Stopped s1).

Scheme bs_mut := Minimality for bs Sort Prop
  with ls_mut := Minimality for ls Sort Prop.
Combined Scheme bs_ls_ind from bs_mut, ls_mut.

Lemma bs_loop_inv : forall w e body rest s o, bs w e (Loop body :: rest) s o ->
  (exists s1, ls w e body s (Done s1) /\ bs w e rest s1 o) \/
  (exists s1, ls w e body s (Stopped s1) /\ o = Stopped s1).
Proof.
  intros w e body rest s o H. inversion H; subst.
  - discriminate.
  - discriminate.
  - left. eexists. split; eassumption.
  - right. eexists. split; [eassumption|reflexivity].
Qed.

Lemma exec_bs : forall w e f p s o, bf_exec w e f p s = o -> terminal o -> bs w e p s o.
Proof.
  intros w e f. induction f as [|f IH]; intros p s o H T.
  - simpl in H. subst o. contradiction.
  - cbn [bf_exec] in H. destruct p as [|c rest]; [subst o; constructor|].
    destruct c as [| | | | | |body];
      try (destruct (bf_simple w e _ s) as [s1|s1] eqn:Sm;
           [eapply bs_ok; [reflexivity|exact Sm|apply IH; assumption]
           |subst o; eapply bs_fail; [reflexivity|exact Sm]]).
    destruct (cur s =? 0) eqn:C0.
    + eapply bs_loop_done; [apply ls_exit; exact C0|apply IH; assumption].
    + destruct (bf_exec w e f body s) as [s1|s1|s1|q s1|s1] eqn:B; try (subst o; contradiction).
      * pose proof (IH _ _ _ B I) as Hb. pose proof (IH _ _ _ H T) as Hl.
        destruct (bs_loop_inv _ _ _ _ _ _ Hl) as [[s2 [L R]]|[s2 [L ->]]].
        -- eapply bs_loop_done; [eapply ls_iter; eassumption|exact R].
        -- eapply bs_loop_stop. eapply ls_iter; eassumption.
      * subst o. eapply bs_loop_stop. eapply ls_stop; [exact C0|]. apply (IH _ _ _ B I).
Qed.

(** ** the parser as a function of the syntax tree *)
Definition comp_simple (w : Z) (c : cmd) (top : frame) : frame :=
  match c with
  | Right => with_shift top (f_shift top + 1)
  | Left => with_shift top (f_shift top - 1)
  | Inc => with_insts_buff top (f_insts top)
             (buff_set (f_buff top) (f_shift top) (wadd w (buff_val (f_buff top) (f_shift top)) 1))
  | Dec => with_insts_buff top (f_insts top)
             (buff_set (f_buff top) (f_shift top) (wadd w (buff_val (f_buff top) (f_shift top)) (neg_one w)))
  | Out => let '(insts, b) := flush_key (f_shift top) (f_insts top, f_buff top) in
           with_insts_buff top (IOut (f_shift top) :: insts) b
  | In => with_insts_buff top (IIn (f_shift top) :: f_insts top) (buff_set (f_buff top) (f_shift top) 0)
  | Loop _ => top
  end.

Fixpoint comp_cmd (w : Z) (c : cmd) (top : frame) : frame :=
  match c with
  | Loop body => close_loop w (fold_left (fun f c' => comp_cmd w c' f) body (frame0 (f_shift top))) top
  | _ => comp_simple w c top
  end.
Definition comp (w : Z) (p : list cmd) (top : frame) : frame := fold_left (fun f c => comp_cmd w c f) p top.

Lemma comp_cons : forall w c p top, comp w (c :: p) top = comp w p (comp_cmd w c top).
Proof. reflexivity. Qed.

Lemma comp_loop : forall w body top,
  comp_cmd w (Loop body) top = close_loop w (comp w body (frame0 (f_shift top))) top.
Proof. reflexivity. Qed.

Lemma parse_go_comp : forall text p after, parses text p after ->
  forall w i top stack pos, exists i',
    parse_go w text i top stack pos = parse_go w after i' (comp w p top) stack pos.
Proof.
  intros text p after H. induction H as [|r|c x r cs a No Nc Sx H IH|c r cs a No Nc Sx H IH|r body r2 cs a H1 IH1 H2 IH2];
    intros w i top stack pos.
  - exists i. reflexivity.
  - exists i. reflexivity.
  - destruct (IH w (i + 1) (comp_cmd w x top) stack pos) as [i' Hi']. exists i'. rewrite comp_cons, <- Hi'.
    unfold simple_of in Sx. cbn [parse_go].
    destruct (c =? ch_plus) eqn:E1.
    { injection Sx as <-. apply Z.eqb_eq in E1. subst c. reflexivity. }
    destruct (c =? ch_minus) eqn:E2.
    { injection Sx as <-. apply Z.eqb_eq in E2. subst c. reflexivity. }
    destruct (c =? ch_lt) eqn:E3.
    { injection Sx as <-. apply Z.eqb_eq in E3. subst c. reflexivity. }
    destruct (c =? ch_gt) eqn:E4.
    { injection Sx as <-. apply Z.eqb_eq in E4. subst c. reflexivity. }
    destruct (c =? ch_dot) eqn:E5.
    { injection Sx as <-. apply Z.eqb_eq in E5. subst c. cbn [comp_cmd comp_simple].
      change (ch_dot =? ch_gt) with false. change (ch_dot =? ch_lt) with false.
      change (ch_dot =? ch_plus) with false. change (ch_dot =? ch_minus) with false.
      change (ch_dot =? ch_dot) with true. cbv iota.
      destruct (flush_key (f_shift top) (f_insts top, f_buff top)). reflexivity. }
    destruct (c =? ch_comma) eqn:E6; [|discriminate].
    injection Sx as <-. apply Z.eqb_eq in E6. subst c. reflexivity.
  - destruct (IH w (i + 1) top stack pos) as [i' Hi']. exists i'. rewrite <- Hi'.
    unfold simple_of in Sx. cbn [parse_go].
    destruct (c =? ch_plus); [discriminate|]. destruct (c =? ch_minus); [discriminate|].
    destruct (c =? ch_lt); [discriminate|]. destruct (c =? ch_gt); [discriminate|].
    destruct (c =? ch_dot); [discriminate|]. destruct (c =? ch_comma); [discriminate|].
    rewrite No, Nc. reflexivity.
  - destruct (IH1 w (i + 1) (frame0 (f_shift top)) (top :: stack) (i :: pos)) as [i1 Hi1].
    destruct (IH2 w (i1 + 1) (close_loop w (comp w body (frame0 (f_shift top))) top) stack pos) as [i2 Hi2].
    exists i2. rewrite comp_cons, comp_loop, <- Hi2.
    change (parse_go w (ch_open :: r) i top stack pos)
      with (parse_go w r (i + 1) (frame0 (f_shift top)) (top :: stack) (i :: pos)).
    rewrite Hi1. reflexivity.
Qed.

Lemma parse_comp : forall w src p, ast_of_source src = Some p ->
  parse w src = POk (f_shift (comp w p (frame0 0)),
                     rev (flush_nonzero (f_buff (comp w p (frame0 0))) (f_insts (comp w p (frame0 0))))).
Proof.
  intros w src p H. apply ast_parses in H. unfold parse.
  destruct (parse_go_comp _ _ _ H w 0 (frame0 0) [] []) as [i' Hi']. rewrite Hi'. reflexivity.
Qed.

(** ** the simulation relation *)
Section Sim.
Variable w : Z.
Variable e : env.
Hypothesis Hw : 0 <= w.

(** [pend k]: increment still owed to the cell at offset [k] from the IR pointer (the frame's
    buffer); [ctx a]: increment owed to the absolute cell [a] by the enclosing frames *)
Definition Rp (ctx : Z -> Z) (sh : Z) (pend : Z -> Z) (sI : irst) (sC : bfst) : Prop :=
  ptr sC = ir_ptr sI + sh /\ io sC = ir_io sI /\
  (forall a, tget (tape sC) a = norm w (tget (ir_tape sI) a + pend (a - ir_ptr sI) + ctx a)) /\
  (forall a, 0 <= tget (ir_tape sI) a < 2 ^ w).

Definition Rf (ctx : Z -> Z) (F : frame) (sI : irst) (sC : bfst) : Prop :=
  Rp ctx (f_shift F) (buff_val (f_buff F)) sI sC /\ bsorted (f_buff F).

Lemma Rp_ext : forall ctx sh pend pend' sI sC, (forall k, pend k = pend' k) ->
  Rp ctx sh pend sI sC -> Rp ctx sh pend' sI sC.
Proof.
  intros ctx sh pend pend' sI sC E (A & B & C & D). split; [exact A|split; [exact B|split; [|exact D]]].
  intros a. rewrite <- E. apply C.
Qed.

Lemma Rp_cnorm : forall ctx sh pend sI sC, Rp ctx sh pend sI sC -> forall a, 0 <= tget (tape sC) a < 2 ^ w.
Proof. intros ctx sh pend sI sC (A & B & C & D) a. rewrite C. apply norm_range. exact Hw. Qed.

Definition upd0 (pend : Z -> Z) (k : Z) : Z -> Z := fun k' => if k =? k' then 0 else pend k'.

Lemma eval_i_add : forall k v rd, eval w [(v, []); (1, [k])] rd = norm w (v + rd k).
Proof.
  intros. unfold eval, eval_part. cbn [fold_left fst snd]. unfold wadd, wmul, norm.
  rewrite Z.add_0_l, Z.mul_1_l. rewrite <- Z.add_mod; [reflexivity|]. pose proof (pow_pos w Hw). lia.
Qed.

Lemma ir_calc_one : forall k ex s, ir_calc w [(k, ex)] s = ir_write s k (eval w ex (ir_read s)).
Proof. reflexivity. Qed.

(** paying the increment owed at offset [k] *)
Lemma flush_one : forall ctx sh pend sI sC k, Rp ctx sh pend sI sC ->
  Rp ctx sh (upd0 pend k) (if pend k =? 0 then sI else ir_calc w [(k, [(pend k, []); (1, [k])])] sI) sC.
Proof.
  intros ctx sh pend sI sC k (A & B & C & D).
  destruct (pend k =? 0) eqn:Z0.
  - apply Z.eqb_eq in Z0. split; [exact A|split; [exact B|split; [|exact D]]]. intros a. rewrite C. unfold upd0.
    destruct (k =? a - ir_ptr sI) eqn:E; [|reflexivity]. apply Z.eqb_eq in E. rewrite <- E, Z0. reflexivity.
  - rewrite ir_calc_one, eval_i_add. unfold Rp, ir_write, ir_read. cbn [ir_ptr ir_tape ir_io]. split; [exact A|split; [exact B|split]].
    + intros a. rewrite tget_tset. unfold upd0. destruct (ir_ptr sI + k =? a) eqn:E.
      * apply Z.eqb_eq in E. subst a. replace (ir_ptr sI + k - ir_ptr sI) with k by lia. rewrite Z.eqb_refl.
        rewrite C. replace (ir_ptr sI + k - ir_ptr sI) with k by lia.
        rewrite Z.add_0_r, (norm_norm_add_l w Hw). f_equal. lia.
      * apply Z.eqb_neq in E. destruct (k =? a - ir_ptr sI) eqn:E2; [apply Z.eqb_eq in E2; lia|]. apply C.
    + intros a. rewrite tget_tset. destruct (ir_ptr sI + k =? a); [apply norm_range; exact Hw|apply D].
Qed.

Lemma flush_one_ptr : forall pend k sI,
  ir_ptr (if pend k =? 0 then sI else ir_calc w [(k, [(pend k, []); (1, [k])])] sI) = ir_ptr sI.
Proof. intros. destruct (pend k =? 0); reflexivity. Qed.

(** what [flush_key] and [flush_nonzero] emit, and the state it leads to *)
Definition adds_of (k v : Z) : list instr := if v =? 0 then [] else [i_add k v].

Lemma flush_key_eq : forall k insts b,
  flush_key k (insts, b) = (adds_of k (buff_val b k) ++ insts, buff_set b k 0).
Proof. intros. unfold flush_key, adds_of. destruct (buff_val b k =? 0); reflexivity. Qed.

Lemma exec_adds_of : forall k v s,
  ir_exec w e false 2 (rev (adds_of k v)) s = Done (if v =? 0 then s else ir_calc w [(k, [(v, []); (1, [k])])] s).
Proof. intros. unfold adds_of. destruct (v =? 0); reflexivity. Qed.

Definition Flushed (ctx : Z -> Z) (sh : Z) (sC : bfst) (insts insts' : list instr) (pend' : Z -> Z) (sI : irst) : Prop :=
  exists adds fi sI', insts' = adds ++ insts /\ ir_exec w e false fi (rev adds) sI = Done sI' /\
    ir_ptr sI' = ir_ptr sI /\ Rp ctx sh pend' sI' sC.

Lemma flush_key_sim : forall ctx sh sC k insts b sI, Rp ctx sh (buff_val b) sI sC ->
  Flushed ctx sh sC insts (fst (flush_key k (insts, b))) (buff_val (snd (flush_key k (insts, b)))) sI.
Proof.
  intros ctx sh sC k insts b sI H. rewrite flush_key_eq. cbn [fst snd].
  exists (adds_of k (buff_val b k)), 2%nat. eexists. split; [reflexivity|]. split; [apply exec_adds_of|].
  split; [apply (flush_one_ptr (buff_val b))|].
  eapply Rp_ext; [|apply flush_one; exact H]. intros k'. unfold upd0. rewrite buff_val_set. reflexivity.
Qed.

Lemma Flushed_trans : forall ctx sh sC i1 i2 i3 p2 p3 sI,
  Flushed ctx sh sC i1 i2 p2 sI ->
  (forall sI2, ir_ptr sI2 = ir_ptr sI -> Rp ctx sh p2 sI2 sC -> Flushed ctx sh sC i2 i3 p3 sI2) ->
  Flushed ctx sh sC i1 i3 p3 sI.
Proof.
  intros ctx sh sC i1 i2 i3 p2 p3 sI (a1 & f1 & s1 & E1 & X1 & P1 & R1) H.
  destruct (H s1 P1 R1) as (a2 & f2 & s2 & E2 & X2 & P2 & R2).
  exists (a2 ++ a1), (f1 + f2)%nat, s2. split; [rewrite E2, E1, app_assoc; reflexivity|].
  split; [rewrite rev_app_distr; eapply ir_exec_app; [exact X1|exact X2|exact I]|].
  split; [lia|exact R2].
Qed.

Lemma Flushed_refl : forall ctx sh sC i p sI, Rp ctx sh p sI sC -> Flushed ctx sh sC i i p sI.
Proof. intros. exists [], 1%nat, sI. split; [reflexivity|split; [reflexivity|split; [reflexivity|assumption]]]. Qed.

Definition flush_keys (ks : list Z) (st : list instr * buff) : list instr * buff :=
  fold_left (fun st k => flush_key k st) ks st.

Lemma flush_keys_of_buff : forall (sb : buff) st,
  fold_left (fun st kv => flush_key (fst kv) st) sb st = flush_keys (keys sb) st.
Proof. induction sb as [|kv sb IH]; intros st; [reflexivity|]. cbn. apply IH. Qed.

Lemma flush_keys_sim : forall ctx sh sC ks insts b sI, Rp ctx sh (buff_val b) sI sC ->
  Flushed ctx sh sC insts (fst (flush_keys ks (insts, b))) (buff_val (snd (flush_keys ks (insts, b)))) sI.
Proof.
  intros ctx sh sC ks. induction ks as [|k ks IH]; intros insts b sI H.
  - apply Flushed_refl. exact H.
  - cbn [flush_keys fold_left]. fold (flush_keys ks (flush_key k (insts, b))).
    eapply Flushed_trans; [apply (flush_key_sim ctx sh sC k insts b sI H)|]. intros sI2 P2 R2.
    destruct (flush_key k (insts, b)) as [i2 b2] eqn:FK. cbn [fst snd] in *. apply IH. exact R2.
Qed.

Lemma flush_keys_snd : forall ks insts b,
  snd (flush_keys ks (insts, b)) = fold_left (fun b k => buff_set b k 0) ks b.
Proof.
  induction ks as [|k ks IH]; intros insts b; [reflexivity|].
  cbn [flush_keys fold_left]. rewrite flush_key_eq. apply IH.
Qed.

Lemma zero_keys_val : forall ks b k,
  buff_val (fold_left (fun b k => buff_set b k 0) ks b) k = if mem k ks then 0 else buff_val b k.
Proof.
  induction ks as [|k0 ks IH]; intros b k; [reflexivity|].
  cbn [fold_left mem]. rewrite IH, buff_val_set. destruct (mem k ks); [rewrite orb_true_r; reflexivity|].
  rewrite orb_false_r. reflexivity.
Qed.

Lemma zero_keys_keys : forall ks b k,
  List.In k (keys (fold_left (fun b k => buff_set b k 0) ks b)) <-> List.In k ks \/ List.In k (keys b).
Proof.
  induction ks as [|k0 ks IH]; intros b k; cbn [fold_left List.In]; [intuition|].
  rewrite IH, keys_set. intuition.
Qed.

Lemma zero_keys_sorted : forall ks b, bsorted b -> bsorted (fold_left (fun b k => buff_set b k 0) ks b).
Proof. induction ks as [|k0 ks IH]; intros b S; [exact S|]. cbn [fold_left]. apply IH, bsorted_set, S. Qed.

Lemma mem_In : forall k l, mem k l = true <-> List.In k l.
Proof.
  intros k l. induction l as [|x l IH]; cbn [mem List.In]; [split; [discriminate|contradiction]|].
  rewrite orb_true_iff, IH, Z.eqb_eq. reflexivity.
Qed.

(** [flush_nonzero] pays everything *)
Lemma flush_nonzero_sim_gen : forall ctx sh sC (l : buff) insts pend sI,
  NoDup (keys l) -> (forall k v, List.In (k, v) l -> pend k = v) -> Rp ctx sh pend sI sC ->
  Flushed ctx sh sC insts (flush_nonzero l insts) (fun k => if mem k (keys l) then 0 else pend k) sI.
Proof.
  intros ctx sh sC l. induction l as [|[k v] l IH]; intros insts pend sI ND PV H.
  - apply Flushed_refl. exact H.
  - unfold flush_nonzero. cbn [fold_left fst snd]. fold (flush_nonzero l (if v =? 0 then insts else i_add k v :: insts)).
    cbn [keys map fst] in ND. inversion ND as [|x l' NI ND']; subst.
    eapply Flushed_trans with (i2 := adds_of k v ++ insts) (p2 := upd0 pend k).
    + exists (adds_of k v), 2%nat. eexists. split; [reflexivity|]. split; [apply exec_adds_of|].
      rewrite <- (PV k v (or_introl eq_refl)). split; [apply flush_one_ptr|apply flush_one; exact H].
    + intros sI2 P2 R2.
      replace (if v =? 0 then insts else i_add k v :: insts) with (adds_of k v ++ insts)
        by (unfold adds_of; destruct (v =? 0); reflexivity).
      assert (G := IH (adds_of k v ++ insts) (upd0 pend k) sI2 ND').
      destruct G as (a2 & f2 & s2 & E2 & X2 & Pt2 & R3).
      * intros k2 v2 I2. unfold upd0. destruct (k =? k2) eqn:E; [|apply PV; right; exact I2].
        apply Z.eqb_eq in E. subst k2. exfalso. apply NI. change (List.In (fst (k, v2)) (map fst l)). apply in_map. exact I2.
      * exact R2.
      * exists a2, f2, s2. split; [exact E2|split; [exact X2|split; [exact Pt2|]]].
        eapply Rp_ext; [|exact R3]. intros k2. cbn [keys map fst mem]. unfold upd0.
        fold (keys l). destruct (mem k2 (keys l)); [rewrite orb_true_r; reflexivity|]. rewrite orb_false_r.
        reflexivity.
Qed.

Lemma sorted_nodup : forall b, bsorted b -> NoDup (keys b).
Proof.
  unfold bsorted. intros b. induction (keys b) as [|x l IH]; intros S; [constructor|].
  inversion S as [|y l' S' F]; subst. constructor; [|apply IH; exact S'].
  intros HI. rewrite Forall_forall in F. specialize (F x HI). lia.
Qed.

Lemma buff_val_in : forall b k v, bsorted b -> List.In (k, v) b -> buff_val b k = v.
Proof.
  intros b k v S HI. apply sorted_nodup in S. unfold buff_val.
  induction b as [|[k' v'] b IH]; [contradiction|]. cbn [buff_get]. cbn [keys map fst] in S.
  inversion S as [|x l NI ND]; subst. destruct HI as [E|HI].
  - injection E as -> ->. rewrite Z.eqb_refl. reflexivity.
  - destruct (k' =? k) eqn:E.
    + apply Z.eqb_eq in E. subst k'. exfalso. apply NI. change (List.In (fst (k, v)) (map fst b)). apply in_map. exact HI.
    + apply IH; assumption.
Qed.

Lemma flush_nonzero_sim : forall ctx sh sC b insts sI, bsorted b -> Rp ctx sh (buff_val b) sI sC ->
  Flushed ctx sh sC insts (flush_nonzero b insts) (buff_val (zero_all b)) sI.
Proof.
  intros ctx sh sC b insts sI S H.
  destruct (flush_nonzero_sim_gen ctx sh sC b insts (buff_val b) sI (sorted_nodup b S)
              (fun k v HI => buff_val_in b k v S HI) H) as (a & f & s & E & X & P & R0).
  exists a, f, s. split; [exact E|split; [exact X|split; [exact P|]]]. eapply Rp_ext; [|exact R0].
  intros k. rewrite buff_val_zero_all. destruct (mem k (keys b)) eqn:M; [reflexivity|].
  apply buff_val_notin. intros HI. apply mem_In in HI. congruence.
Qed.
End Sim.

(** ** structure of [close_loop] and of the frames [comp] produces *)
Definition moves_of (sub : frame) (sh : Z) : bool := f_moved sub || negb (f_shift sub =? sh).
Definition sub_insts_of (sub : frame) : list instr := rev (flush_nonzero (f_buff sub) (f_insts sub)).

Definition cl_st1 (sub parent : frame) := flush_keys (keys (f_buff sub)) (f_insts parent, f_buff parent).
Definition cl_st2 (sub parent : frame) :=
  if moves_of sub (f_shift parent)
  then (flush_nonzero (snd (cl_st1 sub parent)) (fst (cl_st1 sub parent)), zero_all (snd (cl_st1 sub parent)))
  else cl_st1 sub parent.
Definition cl_st3 (sub parent : frame) := flush_key (f_shift parent) (cl_st2 sub parent).

Lemma close_loop_clear : forall w sub parent,
  is_clear_loop w sub (sub_insts_of sub) (f_shift parent) = true ->
  close_loop w sub parent =
    {| f_shift := f_shift parent; f_moved := f_moved parent;
       f_insts := i_load (f_shift parent) 0 :: f_insts parent;
       f_buff := buff_set (f_buff parent) (f_shift parent) 0 |}.
Proof. intros w sub parent H. unfold close_loop. fold (sub_insts_of sub). rewrite H. reflexivity. Qed.

Lemma close_loop_general : forall w sub parent,
  is_clear_loop w sub (sub_insts_of sub) (f_shift parent) = false ->
  close_loop w sub parent =
    {| f_shift := f_shift parent; f_moved := f_moved parent || moves_of sub (f_shift parent);
       f_insts := ILoop (f_shift parent) (f_shift sub - f_shift parent) (sub_insts_of sub) false :: fst (cl_st3 sub parent);
       f_buff := snd (cl_st3 sub parent) |}.
Proof.
  intros w sub parent H. unfold close_loop. fold (sub_insts_of sub). rewrite H.
  rewrite flush_keys_of_buff. unfold cl_st3, cl_st2. fold (cl_st1 sub parent).
  destruct (cl_st1 sub parent) as [i1 b1]. fold (moves_of sub (f_shift parent)).
  cbn [fst snd]. destruct (moves_of sub (f_shift parent)).
  - destruct (flush_key (f_shift parent) (flush_nonzero b1 i1, zero_all b1)) as [i3 b3]. reflexivity.
  - destruct (flush_key (f_shift parent) (i1, b1)) as [i3 b3]. reflexivity.
Qed.

Lemma flush_nonzero_nz : forall (l : buff) insts,
  flush_nonzero l insts = rev (flat_map (fun kv => adds_of (fst kv) (snd kv)) l) ++ insts.
Proof.
  induction l as [|[k v] l IH]; intros insts; [reflexivity|].
  unfold flush_nonzero. cbn [fold_left flat_map fst snd]. fold (flush_nonzero l (if v =? 0 then insts else i_add k v :: insts)).
  rewrite IH, rev_app_distr, <- app_assoc. f_equal. unfold adds_of. destruct (v =? 0); reflexivity.
Qed.

Lemma flush_keys_fst : forall ks insts b, exists adds, fst (flush_keys ks (insts, b)) = adds ++ insts.
Proof.
  induction ks as [|k ks IH]; intros insts b; [exists []; reflexivity|].
  cbn [flush_keys fold_left]. rewrite flush_key_eq. fold (flush_keys ks (adds_of k (buff_val b k) ++ insts, buff_set b k 0)).
  destruct (IH (adds_of k (buff_val b k) ++ insts) (buff_set b k 0)) as [a Ha]. rewrite Ha.
  exists (a ++ adds_of k (buff_val b k)). rewrite app_assoc. reflexivity.
Qed.

Lemma cl_st3_fst : forall sub parent, exists adds, fst (cl_st3 sub parent) = adds ++ f_insts parent.
Proof.
  intros sub parent. unfold cl_st3, cl_st2.
  destruct (flush_keys_fst (keys (f_buff sub)) (f_insts parent) (f_buff parent)) as [a1 H1].
  fold (cl_st1 sub parent) in H1. destruct (cl_st1 sub parent) as [i1 b1]. cbn [fst snd] in *.
  destruct (moves_of sub (f_shift parent)); rewrite flush_key_eq; cbn [fst].
  - rewrite flush_nonzero_nz, H1. eexists. rewrite !app_assoc. reflexivity.
  - rewrite H1. eexists. rewrite app_assoc. reflexivity.
Qed.

Lemma cl_st1_snd : forall sub parent,
  snd (cl_st1 sub parent) = fold_left (fun b k => buff_set b k 0) (keys (f_buff sub)) (f_buff parent).
Proof. intros. unfold cl_st1. apply flush_keys_snd. Qed.

Lemma cl_st3_snd : forall sub parent,
  snd (cl_st3 sub parent) = buff_set (snd (cl_st2 sub parent)) (f_shift parent) 0.
Proof. intros. unfold cl_st3. destruct (cl_st2 sub parent) as [i2 b2]. rewrite flush_key_eq. reflexivity. Qed.

Lemma cl_st2_keys : forall sub parent k,
  List.In k (keys (snd (cl_st2 sub parent))) <-> List.In k (keys (f_buff sub)) \/ List.In k (keys (f_buff parent)).
Proof.
  intros. unfold cl_st2. destruct (moves_of sub (f_shift parent)); cbn [snd]; rewrite ?keys_zero_all, cl_st1_snd; apply zero_keys_keys.
Qed.

Lemma cl_st2_val : forall sub parent k,
  buff_val (snd (cl_st2 sub parent)) k =
  if moves_of sub (f_shift parent) then 0
  else if mem k (keys (f_buff sub)) then 0 else buff_val (f_buff parent) k.
Proof.
  intros. unfold cl_st2. destruct (moves_of sub (f_shift parent)); cbn [snd].
  - apply buff_val_zero_all.
  - rewrite cl_st1_snd. apply zero_keys_val.
Qed.

Lemma cl_st2_sorted : forall sub parent, bsorted (f_buff parent) -> bsorted (snd (cl_st2 sub parent)).
Proof.
  intros sub parent S. unfold cl_st2. destruct (moves_of sub (f_shift parent)); cbn [snd].
  - unfold bsorted. rewrite keys_zero_all, cl_st1_snd. apply zero_keys_sorted, S.
  - rewrite cl_st1_snd. apply zero_keys_sorted, S.
Qed.


(** keys only grow, [moved] only becomes true, instructions are only appended *)
Lemma comp_cmd_keys : forall w c F k, List.In k (keys (f_buff F)) -> List.In k (keys (f_buff (comp_cmd w c F))).
Proof.
  intros w c F k H. destruct c as [| | | | | |body]; [| | | | | |rewrite comp_loop]; cbn [comp_cmd comp_simple with_shift with_insts_buff f_buff];
    try exact H; try (apply keys_set; right; exact H).
  - rewrite flush_key_eq. cbn [f_buff]. apply keys_set. right. exact H.
  - set (sub := comp w body (frame0 (f_shift F))).
    destruct (is_clear_loop w sub (sub_insts_of sub) (f_shift F)) eqn:C.
    + rewrite (close_loop_clear _ _ _ C). cbn [f_buff]. apply keys_set. right. exact H.
    + rewrite (close_loop_general _ _ _ C). cbn [f_buff]. rewrite cl_st3_snd. apply keys_set. right.
      apply cl_st2_keys. right. exact H.
Qed.

Lemma comp_cmd_moved : forall w c F, f_moved F = true -> f_moved (comp_cmd w c F) = true.
Proof.
  intros w c F H. destruct c as [| | | | | |body]; [| | | | | |rewrite comp_loop]; cbn [comp_cmd comp_simple with_shift with_insts_buff f_moved]; try exact H.
  - rewrite flush_key_eq. exact H.
  - set (sub := comp w body (frame0 (f_shift F))).
    destruct (is_clear_loop w sub (sub_insts_of sub) (f_shift F)) eqn:C.
    + rewrite (close_loop_clear _ _ _ C). exact H.
    + rewrite (close_loop_general _ _ _ C). cbn [f_moved]. rewrite H. reflexivity.
Qed.

Lemma comp_cmd_extends : forall w c F, exists new, f_insts (comp_cmd w c F) = new ++ f_insts F.
Proof.
  intros w c F. destruct c as [| | | | | |body]; [| | | | | |rewrite comp_loop]; cbn [comp_cmd comp_simple with_shift with_insts_buff f_insts];
    try (exists []; reflexivity).
  - rewrite flush_key_eq. cbn [f_insts]. eexists (IOut _ :: adds_of _ _). reflexivity.
  - eexists [_]. reflexivity.
  - set (sub := comp w body (frame0 (f_shift F))).
    destruct (is_clear_loop w sub (sub_insts_of sub) (f_shift F)) eqn:C.
    + rewrite (close_loop_clear _ _ _ C). eexists [_]. reflexivity.
    + rewrite (close_loop_general _ _ _ C). cbn [f_insts]. destruct (cl_st3_fst sub F) as [a Ha]. rewrite Ha.
      eexists (_ :: a). reflexivity.
Qed.

Lemma comp_keys : forall w p F k, List.In k (keys (f_buff F)) -> List.In k (keys (f_buff (comp w p F))).
Proof. intros w p. induction p as [|c p IH]; intros F k H; [exact H|]. rewrite comp_cons. apply IH, comp_cmd_keys, H. Qed.

Lemma comp_moved : forall w p F, f_moved F = true -> f_moved (comp w p F) = true.
Proof. intros w p. induction p as [|c p IH]; intros F H; [exact H|]. rewrite comp_cons. apply IH, comp_cmd_moved, H. Qed.

Lemma comp_extends : forall w p F, exists new, f_insts (comp w p F) = new ++ f_insts F.
Proof.
  intros w p. induction p as [|c p IH]; intros F; [exists []; reflexivity|]. rewrite comp_cons.
  destruct (IH (comp_cmd w c F)) as [n1 H1]. destruct (comp_cmd_extends w c F) as [n2 H2].
  exists (n1 ++ n2). rewrite H1, H2, app_assoc. reflexivity.
Qed.

(** the most recent instruction of a frame is never a bare "add constant" *)
Definition head_ok (insts : list instr) : Prop :=
  match insts with
  | ICalc [(v, ex)] :: _ => e_const_inc_of ex v = None
  | _ => True
  end.

Lemma comp_cmd_head : forall w c F, head_ok (f_insts F) -> head_ok (f_insts (comp_cmd w c F)).
Proof.
  intros w c F H. destruct c as [| | | | | |body]; [| | | | | |rewrite comp_loop]; cbn [comp_cmd comp_simple with_shift with_insts_buff f_insts]; try exact H.
  - rewrite flush_key_eq. exact I.
  - exact I.
  - set (sub := comp w body (frame0 (f_shift F))).
    destruct (is_clear_loop w sub (sub_insts_of sub) (f_shift F)) eqn:C.
    + rewrite (close_loop_clear _ _ _ C). reflexivity.
    + rewrite (close_loop_general _ _ _ C). exact I.
Qed.

Lemma comp_head : forall w p F, head_ok (f_insts F) -> head_ok (f_insts (comp w p F)).
Proof. intros w p. induction p as [|c p IH]; intros F H; [exact H|]. rewrite comp_cons. apply IH, comp_cmd_head, H. Qed.

(** what a frame looks like when [is_clear_loop] accepts it *)
Definition nz (l : buff) : list instr := flat_map (fun kv => adds_of (fst kv) (snd kv)) l.

Lemma nz_nil : forall l k v, nz l = [] -> List.In (k, v) l -> v = 0.
Proof.
  induction l as [|[k0 v0] l IH]; intros k v H HI; [contradiction|].
  unfold nz in H. cbn [flat_map fst snd] in H. fold (nz l) in H. unfold adds_of in H.
  destruct (v0 =? 0) eqn:E; [|discriminate]. destruct HI as [HI|HI].
  - injection HI as -> ->. apply Z.eqb_eq. exact E.
  - eapply IH; eassumption.
Qed.

Lemma nz_single : forall l sh ex k v, nz l = [ICalc [(sh, ex)]] -> List.In (k, v) l -> k <> sh -> v = 0.
Proof.
  induction l as [|[k0 v0] l IH]; intros sh ex k v H HI N; [contradiction|].
  unfold nz in H. cbn [flat_map fst snd] in H. fold (nz l) in H. unfold adds_of in H.
  destruct (v0 =? 0) eqn:E.
  - destruct HI as [HI|HI]; [injection HI as -> ->; apply Z.eqb_eq; exact E|]. eapply IH; eassumption.
  - cbn [app] in H. injection H as E1 E2 E3. destruct HI as [HI|HI].
    + injection HI as -> ->. contradiction.
    + eapply nz_nil; eassumption.
Qed.

Lemma buff_val_zero_entries : forall (l : buff) k, (forall v, List.In (k, v) l -> v = 0) -> buff_val l k = 0.
Proof.
  intros l k. unfold buff_val. induction l as [|[k0 v0] l IH]; intros H; [reflexivity|].
  cbn [buff_get]. destruct (k0 =? k) eqn:E.
  - apply Z.eqb_eq in E. subst k0. apply H. left. reflexivity.
  - apply IH. intros v HI. apply H. right. exact HI.
Qed.

Lemma clear_loop_shape : forall w sub sh, head_ok (f_insts sub) ->
  is_clear_loop w sub (sub_insts_of sub) sh = true ->
  f_moved sub = false /\ f_shift sub = sh /\ f_insts sub = [] /\ (forall k, k <> sh -> buff_val (f_buff sub) k = 0).
Proof.
  intros w sub sh HO H. unfold is_clear_loop in H.
  apply andb_prop in H. destruct H as [H H3]. apply andb_prop in H. destruct H as [H1 H2].
  apply negb_true_iff in H1. apply Z.eqb_eq in H2.
  split; [exact H1|]. split; [exact H2|].
  unfold sub_insts_of in H3. rewrite flush_nonzero_nz, rev_app_distr, rev_involutive in H3.
  fold (nz (f_buff sub)) in H3.
  destruct (rev (f_insts sub) ++ nz (f_buff sub)) as [|y l'] eqn:E; [discriminate|].
  destruct y as [| |calcs| |]; try discriminate. destruct calcs as [|[var ex] [|c2 cs]]; try discriminate.
  destruct l' as [|y2 t]; [|discriminate].
  apply andb_prop in H3. destruct H3 as [Hv Hc]. apply Z.eqb_eq in Hv. subst var.
  destruct (e_const_inc_of ex sh) as [inc|] eqn:CI; [|discriminate].
  destruct (rev (f_insts sub)) as [|x [|x2 t]] eqn:RI.
  - assert (f_insts sub = []) as EI by (rewrite <- (rev_involutive (f_insts sub)), RI; reflexivity).
    split; [exact EI|]. intros k Nk. apply buff_val_zero_entries. intros v HI.
    cbn [app] in E. eapply nz_single; eassumption.
  - exfalso. cbn [app] in E. injection E as E1 E2.
    assert (f_insts sub = [x]) as EI by (rewrite <- (rev_involutive (f_insts sub)), RI; reflexivity).
    rewrite EI, E1 in HO. cbn in HO. congruence.
  - exfalso. cbn [app] in E. discriminate.
Qed.

(** ** one simple command *)
Section Main.
Variable w : Z.
Variable e : env.
Hypothesis Hw : 0 <= w.

Lemma wadd_norm : forall a b, wadd w a b = norm w (a + b).
Proof. reflexivity. Qed.

Lemma Rp_add : forall ctx sh pend sI sC d, Rp w ctx sh pend sI sC ->
  Rp w ctx sh (fun k => if sh =? k then norm w (pend sh + d) else pend k) sI (set_cur sC (wadd w (cur sC) d)).
Proof.
  intros ctx sh pend sI sC d (A & B & C & D). unfold set_cur, cur. split; [exact A|split; [exact B|split; [|exact D]]].
  cbn [tape ptr io]. intros a. rewrite tget_tset. rewrite A. destruct (ir_ptr sI + sh =? a) eqn:E.
  - apply Z.eqb_eq in E. subst a. replace (ir_ptr sI + sh - ir_ptr sI) with sh by lia. rewrite Z.eqb_refl.
    rewrite C, wadd_norm. replace (ir_ptr sI + sh - ir_ptr sI) with sh by lia.
    rewrite (norm_norm_add_l w Hw).
    replace (tget (ir_tape sI) (ir_ptr sI + sh) + norm w (pend sh + d) + ctx (ir_ptr sI + sh))
      with (norm w (pend sh + d) + (tget (ir_tape sI) (ir_ptr sI + sh) + ctx (ir_ptr sI + sh))) by lia.
    rewrite (norm_norm_add_l w Hw). f_equal. lia.
  - apply Z.eqb_neq in E. destruct (sh =? a - ir_ptr sI) eqn:E2; [apply Z.eqb_eq in E2; lia|]. apply C.
Qed.

Lemma Rp_move : forall ctx sh pend sI sC d, Rp w ctx sh pend sI sC -> Rp w ctx (sh + d) pend sI (move sC d).
Proof.
  intros ctx sh pend sI sC d (A & B & C & D). unfold move. split; [|split; [exact B|split; [exact C|exact D]]].
  cbn [ptr]. lia.
Qed.

Lemma Rp_set_io : forall ctx sh pend sI sC i, Rp w ctx sh pend sI sC -> Rp w ctx sh pend (ir_set_io sI i) (set_io sC i).
Proof. intros ctx sh pend sI sC i (A & B & C & D). split; [exact A|split; [reflexivity|split; [exact C|exact D]]]. Qed.

(** the cell under the canonical pointer, seen from the IR side, once nothing is owed to it *)
Lemma Rp_cur : forall ctx sh pend sI sC, Rp w ctx sh pend sI sC -> pend sh = 0 -> ctx (ir_ptr sI + sh) = 0 ->
  cur sC = ir_read sI sh.
Proof.
  intros ctx sh pend sI sC (A & B & C & D) P0 C0. unfold cur, ir_read. rewrite A, C.
  replace (ir_ptr sI + sh - ir_ptr sI) with sh by lia. rewrite P0, C0, !Z.add_0_r. apply norm_small, D.
Qed.

Lemma Rp_input : forall ctx sh pend sI sC b i, Rp w ctx sh pend sI sC -> ctx (ir_ptr sI + sh) = 0 ->
  Rp w ctx sh (fun k => if sh =? k then 0 else pend k)
     (ir_write (ir_set_io sI i) sh (from_u8 w b)) (set_io (set_cur sC (from_u8 w b)) i).
Proof.
  intros ctx sh pend sI sC b i (A & B & C & D) C0. unfold set_io, set_cur, ir_write, ir_set_io, Rp.
  cbn [tape ptr io ir_tape ir_ptr ir_io]. split; [exact A|split; [reflexivity|split]].
  - intros a. rewrite !tget_tset, A. destruct (ir_ptr sI + sh =? a) eqn:E.
    + apply Z.eqb_eq in E. subst a. replace (ir_ptr sI + sh - ir_ptr sI) with sh by lia. rewrite Z.eqb_refl, C0, !Z.add_0_r.
      unfold from_u8, from_u64. fold (norm w b). symmetry. apply (norm_idem w Hw).
    + apply Z.eqb_neq in E. destruct (sh =? a - ir_ptr sI) eqn:E2; [apply Z.eqb_eq in E2; lia|]. apply C.
  - intros a. rewrite tget_tset. destruct (ir_ptr sI + sh =? a); [|apply D].
    unfold from_u8, from_u64. apply (norm_range w Hw).
Qed.

Definition is_io (c : cmd) : bool := match c with Out | In => true | _ => false end.

Lemma exec_snoc_done : forall fi a sI sI' i o, ir_exec w e false fi a sI = Done sI' ->
  ir_exec w e false 2 [i] sI' = o -> iterminal o -> ir_exec w e false (fi + 2) (a ++ [i]) sI = o.
Proof. intros. eapply ir_exec_app; eassumption. Qed.

Lemma simple_sim : forall c F sI sC ctx, is_loop c = false -> Rf w ctx F sI sC ->
  (is_io c = true -> ctx (ir_ptr sI + f_shift F) = 0) ->
  exists new1, f_insts (comp_cmd w c F) = new1 ++ f_insts F /\
    match bf_simple w e c sC with
    | inl s1 => exists fi sI1, ir_exec w e false fi (rev new1) sI = Done sI1 /\ ir_ptr sI1 = ir_ptr sI /\
                               Rf w ctx (comp_cmd w c F) sI1 s1
    | inr s1 => exists fi sI1, ir_exec w e false fi (rev new1) sI = Stopped sI1 /\ io s1 = ir_io sI1
    end.
Proof.
  intros c F sI sC ctx NL [H S] C0. destruct c as [| | | | | |body]; [| | | | | |discriminate];
    cbn [comp_cmd comp_simple bf_simple].
  - (* Inc *) exists []. split; [reflexivity|]. exists 1%nat, sI. split; [reflexivity|split; [reflexivity|]].
    split; [|apply bsorted_set, S]. cbn [with_insts_buff f_shift f_buff].
    eapply Rp_ext; [|apply Rp_add; exact H]. intros k. cbv beta. rewrite buff_val_set. rewrite wadd_norm. reflexivity.
  - (* Dec *) exists []. split; [reflexivity|]. exists 1%nat, sI. split; [reflexivity|split; [reflexivity|]].
    split; [|apply bsorted_set, S]. cbn [with_insts_buff f_shift f_buff].
    eapply Rp_ext; [|apply Rp_add; exact H]. intros k. cbv beta. rewrite buff_val_set. rewrite wadd_norm. reflexivity.
  - (* Left *) exists []. split; [reflexivity|]. exists 1%nat, sI. split; [reflexivity|split; [reflexivity|]].
    split; [|exact S]. cbn [with_shift f_shift f_buff]. apply (Rp_move ctx (f_shift F) _ sI sC (-1)). exact H.
  - (* Right *) exists []. split; [reflexivity|]. exists 1%nat, sI. split; [reflexivity|split; [reflexivity|]].
    split; [|exact S]. cbn [with_shift f_shift f_buff]. apply Rp_move. exact H.
  - (* Out *) rewrite flush_key_eq. cbn [with_insts_buff f_insts f_shift f_buff].
    exists (IOut (f_shift F) :: adds_of (f_shift F) (buff_val (f_buff F) (f_shift F))). split; [reflexivity|].
    pose proof (flush_key_sim w e Hw ctx (f_shift F) sC (f_shift F) (f_insts F) (f_buff F) sI H) as FL.
    rewrite flush_key_eq in FL. cbn [fst snd] in FL. destruct FL as (adds & fi & sI' & EA & X & P & R').
    apply app_inv_tail in EA. subst adds.
    assert (CU : cur sC = ir_read sI' (f_shift F)).
    { eapply Rp_cur; [exact R'|rewrite buff_val_set, Z.eqb_refl; reflexivity|rewrite P; apply C0; reflexivity]. }
    assert (IOE : io sC = ir_io sI') by (destruct R' as (_ & B & _); exact B).
    cbn [rev]. rewrite CU, IOE.
    destruct (do_output e (ir_io sI') (into_u8 w (ir_read sI' (f_shift F)))) as [u i|i] eqn:DO.
    + exists (fi + 2)%nat, (ir_set_io sI' i). split.
      * eapply exec_snoc_done; [exact X| |exact I]. cbn [ir_exec]. rewrite DO. reflexivity.
      * split; [exact P|]. split; [apply Rp_set_io; exact R'|apply bsorted_set, S].
    + exists (fi + 2)%nat, (ir_set_io sI' i). split; [|reflexivity].
      eapply exec_snoc_done; [exact X| |exact I]. cbn [ir_exec]. rewrite DO. reflexivity.
  - (* In *) cbn [with_insts_buff f_insts f_shift f_buff]. exists [IIn (f_shift F)]. split; [reflexivity|].
    assert (IOE : io sC = ir_io sI) by (destruct H as (_ & B & _); exact B).
    cbn [rev app]. rewrite IOE. destruct (do_input e (ir_io sI)) as [b i|i] eqn:DI.
    + exists 2%nat. eexists. split; [cbn [ir_exec]; rewrite DI; reflexivity|]. split; [reflexivity|].
      split; [|apply bsorted_set, S]. cbn [with_insts_buff f_shift f_buff].
      eapply Rp_ext; [|apply Rp_input; [exact H|apply C0; reflexivity]]. intros k. cbv beta. rewrite buff_val_set. reflexivity.
    + exists 2%nat. eexists. split; [cbn [ir_exec]; rewrite DI; reflexivity|reflexivity].
Qed.
End Main.

(** ** the main simulation *)
Section Main2.
Variable w : Z.
Variable e : env.
Hypothesis Hw : 0 <= w.

(** what the enclosing frames still owe ([ctx]) must not concern any cell the frame touches *)
Definition SC (ctx : Z -> Z) (F' : frame) (base : Z) : Prop :=
  (f_moved F' = false -> forall k, List.In k (keys (f_buff F')) -> ctx (base + k) = 0) /\
  (f_moved F' = true -> forall a, ctx a = 0).

Definition ConclP (p : list cmd) (sC : bfst) (o : outcome bfst) : Prop :=
  forall F sI ctx, Rf w ctx F sI sC -> SC ctx (comp w p F) (ir_ptr sI) ->
  exists new, f_insts (comp w p F) = new ++ f_insts F /\
    match o with
    | Done sC' => exists fi sI', ir_exec w e false fi (rev new) sI = Done sI' /\ Rf w ctx (comp w p F) sI' sC' /\
                                 (f_moved (comp w p F) = false -> ir_ptr sI' = ir_ptr sI)
    | Stopped sC' => exists fi sI', ir_exec w e false fi (rev new) sI = Stopped sI' /\ io sC' = ir_io sI'
    | _ => False
    end.

Definition the_loop (sub : frame) (sh : Z) : instr := ILoop sh (f_shift sub - sh) (sub_insts_of sub) false.

Definition ConclQ (body : list cmd) (sC : bfst) (o : outcome bfst) : Prop :=
  (forall sh sI ctx,
     let sub := comp w body (frame0 sh) in
     Rp w ctx sh (fun _ => 0) sI sC ->
     (moves_of sub sh = false -> forall k, List.In k (keys (f_buff sub)) -> ctx (ir_ptr sI + k) = 0) ->
     (moves_of sub sh = true -> forall a, ctx a = 0) ->
     (moves_of sub sh = false -> ctx (ir_ptr sI + sh) = 0) ->
     match o with
     | Done sC' => exists fi sI', ir_exec w e false fi [the_loop sub sh] sI = Done sI' /\
                                  Rp w ctx sh (fun _ => 0) sI' sC' /\ (moves_of sub sh = false -> ir_ptr sI' = ir_ptr sI)
     | Stopped sC' => exists fi sI', ir_exec w e false fi [the_loop sub sh] sI = Stopped sI' /\ io sC' = ir_io sI'
     | _ => False
     end) /\
  (forall sh, let sub := comp w body (frame0 sh) in
     is_clear_loop w sub (sub_insts_of sub) sh = true -> (forall a, 0 <= tget (tape sC) a < 2 ^ w) ->
     match o with
     | Done sC' => ptr sC' = ptr sC /\ io sC' = io sC /\ (forall a, a <> ptr sC -> tget (tape sC') a = tget (tape sC) a) /\ cur sC' = 0
     | Stopped _ => False
     | _ => True
     end).

Lemma SC_rebase : forall ctx F' base base', SC ctx F' base -> (f_moved F' = false -> base' = base) -> SC ctx F' base'.
Proof.
  intros ctx F' base base' [A B] E. split; [|exact B]. intros M. rewrite (E M). apply A. exact M.
Qed.

Lemma SC_zero_at : forall ctx F' base k, SC ctx F' base -> List.In k (keys (f_buff F')) -> ctx (base + k) = 0.
Proof.
  intros ctx F' base k [A B] HI. destruct (f_moved F') eqn:M; [apply B; reflexivity|apply A; [reflexivity|exact HI]].
Qed.

Lemma Rf_frame0 : forall ctx sh sI sC, Rp w ctx sh (fun _ => 0) sI sC -> Rf w ctx (frame0 sh) sI sC.
Proof. intros ctx sh sI sC H. split; [exact H|]. constructor. Qed.

Lemma frame0_head : forall sh, head_ok (f_insts (frame0 sh)).
Proof. intros. exact I. Qed.

(** zero test of the loop condition on both sides *)
Lemma cond_agree : forall ctx sh sI sC, Rp w ctx sh (fun _ => 0) sI sC -> ctx (ir_ptr sI + sh) = 0 ->
  (cur sC =? 0) = (ir_read sI sh =? 0).
Proof. intros ctx sh sI sC H C0. rewrite (Rp_cur w ctx sh _ sI sC H eq_refl C0). reflexivity. Qed.

Lemma exec_loop_enter : forall n sub sh sI s2 o,
  (ir_read sI sh =? 0) = false ->
  ir_exec w e false n (sub_insts_of sub) sI = Done s2 ->
  ir_exec w e false n [the_loop sub sh] (ir_move s2 (f_shift sub - sh)) = o ->
  ir_exec w e false (S n) [the_loop sub sh] sI = o.
Proof.
  intros n sub sh sI s2 o C B L. unfold the_loop in *. cbn [ir_exec]. rewrite C, B. exact L.
Qed.

Lemma exec_loop_stop : forall n sub sh sI s2,
  (ir_read sI sh =? 0) = false ->
  ir_exec w e false n (sub_insts_of sub) sI = Stopped s2 ->
  ir_exec w e false (S n) [the_loop sub sh] sI = Stopped s2.
Proof. intros n sub sh sI s2 C B. unfold the_loop. cbn [ir_exec]. rewrite C, B. reflexivity. Qed.

Lemma exec_loop_skip : forall sub sh sI, (ir_read sI sh =? 0) = true ->
  ir_exec w e false 2 [the_loop sub sh] sI = Done sI.
Proof. intros sub sh sI C. unfold the_loop. cbn [ir_exec]. rewrite C. reflexivity. Qed.

(** one iteration of the compiled body, including the final flush and the move *)
Lemma body_iteration : forall body sh sI sC s1 ctx,
  let sub := comp w body (frame0 sh) in
  ConclP body sC (Done s1) ->
  Rp w ctx sh (fun _ => 0) sI sC ->
  (moves_of sub sh = false -> forall k, List.In k (keys (f_buff sub)) -> ctx (ir_ptr sI + k) = 0) ->
  (moves_of sub sh = true -> forall a, ctx a = 0) ->
  exists fi s2, ir_exec w e false fi (sub_insts_of sub) sI = Done s2 /\
    Rp w ctx sh (fun _ => 0) (ir_move s2 (f_shift sub - sh)) s1 /\
    (moves_of sub sh = false -> ir_ptr (ir_move s2 (f_shift sub - sh)) = ir_ptr sI).
Proof.
  intros body sh sI sC s1 ctx sub HP H K0 KA.
  assert (SCs : SC ctx sub (ir_ptr sI)).
  { unfold moves_of in *. split.
    - intros M. destruct (f_shift sub =? sh) eqn:E; cbn [negb] in *.
      + intros k HI. apply K0; [rewrite M; reflexivity|exact HI].
      + intros k HI. apply KA. rewrite M. reflexivity.
    - intros M. apply KA. rewrite M. reflexivity. }
  destruct (HP (frame0 sh) sI ctx (Rf_frame0 ctx sh sI sC H) SCs) as (new & EN & fi & sI1 & X & [R1 S1] & P1).
  fold sub in EN, R1, S1, P1. cbn [frame0 f_insts] in EN. rewrite app_nil_r in EN.
  destruct (flush_nonzero_sim w e Hw ctx (f_shift sub) s1 (f_buff sub) (f_insts sub) sI1 S1 R1)
    as (adds & f2 & sI2 & EA & X2 & P2 & R2).
  exists (fi + f2)%nat, sI2. split; [|split].
  - unfold sub_insts_of. rewrite EA, rev_app_distr, EN. eapply ir_exec_app; [exact X|exact X2|exact I].
  - destruct R2 as (A & B & C & D). unfold ir_move. split; [|split; [exact B|split; [|exact D]]]; cbn [ir_ptr ir_tape ir_io].
    + rewrite A. lia.
    + intros a. rewrite C, buff_val_zero_all. reflexivity.
  - intros M. unfold ir_move. cbn [ir_ptr]. unfold moves_of in M. apply orb_false_iff in M. destruct M as [M1 M2].
    apply negb_false_iff, Z.eqb_eq in M2. rewrite P2, (P1 M1), M2. lia.
Qed.

Lemma body_stopped : forall body sh sI sC s1 ctx,
  let sub := comp w body (frame0 sh) in
  ConclP body sC (Stopped s1) ->
  Rp w ctx sh (fun _ => 0) sI sC ->
  (moves_of sub sh = false -> forall k, List.In k (keys (f_buff sub)) -> ctx (ir_ptr sI + k) = 0) ->
  (moves_of sub sh = true -> forall a, ctx a = 0) ->
  exists fi s2, ir_exec w e false fi (sub_insts_of sub) sI = Stopped s2 /\ io s1 = ir_io s2.
Proof.
  intros body sh sI sC s1 ctx sub HP H K0 KA.
  assert (SCs : SC ctx sub (ir_ptr sI)).
  { unfold moves_of in *. split.
    - intros M. destruct (f_shift sub =? sh) eqn:E; cbn [negb] in *.
      + intros k HI. apply K0; [rewrite M; reflexivity|exact HI].
      + intros k HI. apply KA. rewrite M. reflexivity.
    - intros M. apply KA. rewrite M. reflexivity. }
  destruct (HP (frame0 sh) sI ctx (Rf_frame0 ctx sh sI sC H) SCs) as (new & EN & fi & sI1 & X & IOE).
  fold sub in EN. cbn [frame0 f_insts] in EN. rewrite app_nil_r in EN.
  exists fi, sI1. split; [|exact IOE].
  unfold sub_insts_of. rewrite flush_nonzero_nz, rev_app_distr, rev_involutive, EN.
  apply ir_exec_app_stop. exact X.
Qed.

Lemma io_key : forall c F, is_io c = true -> List.In (f_shift F) (keys (f_buff (comp_cmd w c F))).
Proof.
  intros c F H. destruct c; try discriminate; cbn [comp_cmd comp_simple].
  - rewrite flush_key_eq. cbn [with_insts_buff f_buff]. apply keys_set. left. reflexivity.
  - cbn [with_insts_buff f_buff]. apply keys_set. left. reflexivity.
Qed.

Lemma close_flush : forall ctx sub F sI sC, Rf w ctx F sI sC ->
  Flushed w e ctx (f_shift F) sC (f_insts F) (fst (cl_st3 sub F)) (buff_val (snd (cl_st3 sub F))) sI.
Proof.
  intros ctx sub F sI sC [H S].
  pose proof (flush_keys_sim w e Hw ctx (f_shift F) sC (keys (f_buff sub)) (f_insts F) (f_buff F) sI H) as F1.
  fold (cl_st1 sub F) in F1.
  assert (S1 : bsorted (snd (cl_st1 sub F))) by (rewrite cl_st1_snd; apply zero_keys_sorted, S).
  eapply Flushed_trans; [exact F1|]. intros sI2 P2 R2.
  unfold cl_st3, cl_st2. destruct (moves_of sub (f_shift F)).
  - eapply Flushed_trans; [apply (flush_nonzero_sim w e Hw); [exact S1|exact R2]|]. intros sI3 P3 R3.
    apply (flush_key_sim w e Hw ctx (f_shift F) sC (f_shift F) _ _ sI3 R3).
  - destruct (cl_st1 sub F) as [i1 b1]. cbn [fst snd] in *.
    apply (flush_key_sim w e Hw ctx (f_shift F) sC (f_shift F) i1 b1 sI2 R2).
Qed.

Lemma cl_st3_val : forall sub F k,
  buff_val (snd (cl_st3 sub F)) k =
  if f_shift F =? k then 0
  else if moves_of sub (f_shift F) then 0
  else if mem k (keys (f_buff sub)) then 0 else buff_val (f_buff F) k.
Proof. intros. rewrite cl_st3_snd, buff_val_set, cl_st2_val. reflexivity. Qed.

Lemma Rp_clear : forall ctx sh pend sI sC s1, Rp w ctx sh pend sI sC -> ctx (ir_ptr sI + sh) = 0 ->
  ptr s1 = ptr sC -> io s1 = io sC -> (forall a, a <> ptr sC -> tget (tape s1) a = tget (tape sC) a) -> cur s1 = 0 ->
  Rp w ctx sh (fun k => if sh =? k then 0 else pend k) (ir_calc w [(sh, e_val 0)] sI) s1.
Proof.
  intros ctx sh pend sI sC s1 (A & B & C & D) C0 P1 I1 T1 Z1.
  rewrite ir_calc_one. change (eval w (e_val 0) (ir_read sI)) with 0. unfold ir_write, Rp. cbn [ir_ptr ir_tape ir_io].
  split; [lia|split; [congruence|split]].
  - intros a. rewrite tget_tset. destruct (ir_ptr sI + sh =? a) eqn:E.
    + apply Z.eqb_eq in E. subst a. replace (ir_ptr sI + sh - ir_ptr sI) with sh by lia. rewrite Z.eqb_refl, C0.
      unfold cur in Z1. rewrite P1, A in Z1. rewrite Z1. unfold norm. rewrite Z.mod_0_l; [reflexivity|]. pose proof (pow_pos w Hw). lia.
    + apply Z.eqb_neq in E. destruct (sh =? a - ir_ptr sI) eqn:E2; [apply Z.eqb_eq in E2; lia|].
      rewrite T1 by lia. apply C.
  - intros a. rewrite tget_tset. destruct (ir_ptr sI + sh =? a); [|apply D]. pose proof (pow_pos w Hw). lia.
Qed.

(** a canonical state as an IR state whose pointer sits [sh] cells to the left *)
Definition synth (sC : bfst) (sh : Z) : irst :=
  {| ir_tape := tape sC; ir_ptr := ptr sC - sh; ir_io := io sC; ir_budget := 0 |}.

Lemma synth_rel : forall sC sh, (forall a, 0 <= tget (tape sC) a < 2 ^ w) ->
  Rp w (fun _ => 0) sh (fun _ => 0) (synth sC sh) sC.
Proof.
  intros sC sh N. unfold synth, Rp. cbn [ir_ptr ir_tape ir_io]. split; [lia|split; [reflexivity|split; [|exact N]]].
  intros a. rewrite !Z.add_0_r. symmetry. apply norm_small, N.
Qed.

Lemma SC_zero : forall F' base, SC (fun _ => 0) F' base.
Proof. intros. split; intros; reflexivity. Qed.

Theorem sim_main :
  (forall p s o, bs w e p s o -> ConclP p s o) /\ (forall body s o, ls w e body s o -> ConclQ body s o).
Proof.
  apply bs_ls_ind.
  - (* nil *) intros s F sI ctx H SCH. exists []. split; [reflexivity|]. exists 1%nat, sI.
    split; [reflexivity|split; [exact H|reflexivity]].
  - (* simple command, continues *)
    intros c rest s s1 o NL SM _ IH F sI ctx H SCH. rewrite comp_cons in *.
    destruct (simple_sim w e Hw c F sI s ctx NL H) as (new1 & E1 & HS).
    { intros IO. apply (SC_zero_at _ _ _ _ SCH). apply comp_keys, io_key, IO. }
    rewrite SM in HS. destruct HS as (fi & sI1 & X1 & P1 & R1).
    destruct (IH (comp_cmd w c F) sI1 ctx R1) as (new2 & E2 & HO); [rewrite P1; exact SCH|].
    exists (new2 ++ new1). split; [rewrite E2, E1, app_assoc; reflexivity|].
    destruct o as [s'|s'|s'|q s'|s']; try contradiction.
    + destruct HO as (f2 & sI' & X2 & R2 & PT). exists (fi + f2)%nat, sI'.
      split; [rewrite rev_app_distr; eapply ir_exec_app; [exact X1|exact X2|exact I]|].
      split; [exact R2|]. intros M. rewrite (PT M). exact P1.
    + destruct HO as (f2 & sI' & X2 & IOE). exists (fi + f2)%nat, sI'.
      split; [rewrite rev_app_distr; eapply ir_exec_app; [exact X1|exact X2|exact I]|exact IOE].
  - (* simple command, I/O failure *)
    intros c rest s s1 NL SM F sI ctx H SCH. rewrite comp_cons in *.
    destruct (simple_sim w e Hw c F sI s ctx NL H) as (new1 & E1 & HS).
    { intros IO. apply (SC_zero_at _ _ _ _ SCH). apply comp_keys, io_key, IO. }
    rewrite SM in HS. destruct HS as (fi & sI1 & X1 & IOE).
    destruct (comp_extends w rest (comp_cmd w c F)) as [new2 E2].
    exists (new2 ++ new1). split; [rewrite E2, E1, app_assoc; reflexivity|].
    exists fi, sI1. split; [rewrite rev_app_distr; apply ir_exec_app_stop; exact X1|exact IOE].
  - (* loop, then the rest *)
    intros body rest s s1 o _ IHQ _ IHP F sI ctx H SCH. rewrite comp_cons, comp_loop in *.
    set (sub := comp w body (frame0 (f_shift F))) in *.
    destruct (is_clear_loop w sub (sub_insts_of sub) (f_shift F)) eqn:CL.
    + (* recognised as "set to zero" *)
      rewrite (close_loop_clear _ _ _ CL) in *.
      set (F1 := {| f_shift := f_shift F; f_moved := f_moved F; f_insts := i_load (f_shift F) 0 :: f_insts F;
                    f_buff := buff_set (f_buff F) (f_shift F) 0 |}) in *.
      destruct H as [H S].
      destruct IHQ as [_ QC]. specialize (QC (f_shift F) CL (Rp_cnorm w Hw _ _ _ _ _ H)).
      destruct QC as (P1 & I1 & T1 & Z1).
      assert (C0 : ctx (ir_ptr sI + f_shift F) = 0).
      { apply (SC_zero_at _ _ _ _ SCH). apply comp_keys. subst F1. cbn [f_buff]. apply keys_set. left. reflexivity. }
      assert (R1 : Rf w ctx F1 (ir_calc w [(f_shift F, e_val 0)] sI) s1).
      { split; [|subst F1; cbn [f_buff]; apply bsorted_set, S]. subst F1. cbn [f_shift f_buff].
        eapply Rp_ext; [|apply (Rp_clear ctx (f_shift F) _ sI s s1 H C0 P1 I1 T1 Z1)].
        intros k. cbv beta. rewrite buff_val_set. reflexivity. }
      destruct (IHP F1 _ ctx R1) as (new2 & E2 & HO); [exact SCH|].
      exists (new2 ++ [i_load (f_shift F) 0]). split; [rewrite E2; subst F1; cbn [f_insts]; rewrite <- app_assoc; reflexivity|].
      assert (X1 : ir_exec w e false 2 (rev [i_load (f_shift F) 0]) sI = Done (ir_calc w [(f_shift F, e_val 0)] sI)) by reflexivity.
      destruct o as [s'|s'|s'|q s'|s']; try contradiction.
      * destruct HO as (f2 & sI' & X2 & R2 & PT). exists (2 + f2)%nat, sI'.
        split; [rewrite rev_app_distr; eapply ir_exec_app; [exact X1|exact X2|exact I]|].
        split; [exact R2|]. intros M. rewrite (PT M). reflexivity.
      * destruct HO as (f2 & sI' & X2 & IOE). exists (2 + f2)%nat, sI'.
        split; [rewrite rev_app_distr; eapply ir_exec_app; [exact X1|exact X2|exact I]|exact IOE].
    + (* a real loop *)
      rewrite (close_loop_general _ _ _ CL) in *.
      set (F1 := {| f_shift := f_shift F; f_moved := f_moved F || moves_of sub (f_shift F);
                    f_insts := ILoop (f_shift F) (f_shift sub - f_shift F) (sub_insts_of sub) false :: fst (cl_st3 sub F);
                    f_buff := snd (cl_st3 sub F) |}) in *.
      destruct (close_flush ctx sub F sI s H) as (adds & f3 & sI3 & EA & X3 & P3 & R3).
      destruct H as [H S].
      set (b3 := snd (cl_st3 sub F)) in *.
      set (ctxQ := fun a => buff_val b3 (a - ir_ptr sI3) + ctx a).
      assert (K3 : forall k, List.In k (keys (f_buff sub)) \/ k = f_shift F -> List.In k (keys (f_buff (comp w rest F1)))).
      { intros k Hk. apply comp_keys. subst F1 b3. cbn [f_buff]. rewrite cl_st3_snd. apply keys_set.
        destruct Hk as [Hk| ->]; [right; apply cl_st2_keys; left; exact Hk|left; reflexivity]. }
      assert (RQ : Rp w ctxQ (f_shift F) (fun _ => 0) sI3 s).
      { destruct R3 as (A & B & C & D). split; [exact A|split; [exact B|split; [|exact D]]].
        intros a. rewrite C. subst ctxQ. cbv beta. f_equal. lia. }
      destruct IHQ as [Q1 _]. specialize (Q1 (f_shift F) sI3 ctxQ RQ). fold sub in Q1.
      assert (Q1' := fun c1 c2 c3 => Q1 c1 c2 c3). clear Q1.
      assert (c1 : moves_of sub (f_shift F) = false -> forall k, List.In k (keys (f_buff sub)) -> ctxQ (ir_ptr sI3 + k) = 0).
      { intros M k Hk. subst ctxQ. cbv beta. replace (ir_ptr sI3 + k - ir_ptr sI3) with k by lia.
        subst b3. rewrite cl_st3_val, M. apply mem_In in Hk. rewrite Hk.
        rewrite P3, (SC_zero_at _ _ _ k SCH (K3 k (or_introl (proj1 (mem_In _ _) Hk)))).
        destruct (f_shift F =? k); reflexivity. }
      assert (c2 : moves_of sub (f_shift F) = true -> forall a, ctxQ a = 0).
      { intros M a. subst ctxQ. cbv beta. subst b3. rewrite cl_st3_val, M.
        destruct SCH as [_ SB]. rewrite SB; [destruct (f_shift F =? a - ir_ptr sI3); reflexivity|].
        apply comp_moved. subst F1. cbn [f_moved]. rewrite M. apply orb_true_r. }
      assert (c3 : moves_of sub (f_shift F) = false -> ctxQ (ir_ptr sI3 + f_shift F) = 0).
      { intros M. subst ctxQ. cbv beta. replace (ir_ptr sI3 + f_shift F - ir_ptr sI3) with (f_shift F) by lia.
        subst b3. rewrite cl_st3_val, Z.eqb_refl, P3, (SC_zero_at _ _ _ _ SCH (K3 _ (or_intror eq_refl))). reflexivity. }
      specialize (Q1' c1 c2 c3). cbv beta iota in Q1'. destruct Q1' as (f4 & sI4 & X4 & R4 & P4).
      assert (RF1 : Rf w ctx F1 sI4 s1).
      { split; [|subst F1 b3; cbn [f_buff]; rewrite cl_st3_snd; apply bsorted_set, cl_st2_sorted, S].
        subst F1. cbn [f_shift f_buff]. fold b3.
        destruct R4 as (A & B & C & D). split; [exact A|split; [exact B|split; [|exact D]]].
        intros a. rewrite C. subst ctxQ. cbv beta. f_equal.
        destruct (moves_of sub (f_shift F)) eqn:M.
        - subst b3. rewrite !cl_st3_val, M. destruct (f_shift F =? a - ir_ptr sI3); destruct (f_shift F =? a - ir_ptr sI4); lia.
        - rewrite (P4 eq_refl). lia. }
      assert (MF : f_moved (comp w rest F1) = false -> moves_of sub (f_shift F) = false /\ f_moved F = false).
      { intros M. destruct (f_moved F1) eqn:M1; [rewrite (comp_moved w rest F1 M1) in M; discriminate|].
        subst F1. cbn [f_moved] in M1. apply orb_false_iff in M1. destruct M1; split; assumption. }
      destruct (IHP F1 sI4 ctx RF1) as (new2 & E2 & HO).
      { eapply SC_rebase; [exact SCH|]. intros M. destruct (MF M) as [M2 _]. rewrite (P4 M2). exact P3. }
      exists (new2 ++ (the_loop sub (f_shift F) :: adds)). split.
      { rewrite E2. subst F1. cbn [f_insts]. rewrite EA. unfold the_loop. rewrite <- app_assoc. reflexivity. }
      assert (XL : ir_exec w e false (f3 + f4) (rev (the_loop sub (f_shift F) :: adds)) sI = Done sI4).
      { cbn [rev]. eapply ir_exec_app; [exact X3|exact X4|exact I]. }
      destruct o as [s'|s'|s'|q s'|s']; try contradiction.
      * destruct HO as (f5 & sI' & X5 & R5 & PT). exists (f3 + f4 + f5)%nat, sI'.
        split; [rewrite rev_app_distr; eapply ir_exec_app; [exact XL|exact X5|exact I]|].
        split; [exact R5|]. intros M. rewrite (PT M). destruct (MF M) as [M2 _]. rewrite (P4 M2). exact P3.
      * destruct HO as (f5 & sI' & X5 & IOE). exists (f3 + f4 + f5)%nat, sI'.
        split; [rewrite rev_app_distr; eapply ir_exec_app; [exact XL|exact X5|exact I]|exact IOE].
  - (* loop stopped by an I/O failure *)
    intros body rest s s1 _ IHQ F sI ctx H SCH. rewrite comp_cons, comp_loop in *.
    set (sub := comp w body (frame0 (f_shift F))) in *.
    destruct (is_clear_loop w sub (sub_insts_of sub) (f_shift F)) eqn:CL.
    + destruct H as [H S]. destruct IHQ as [_ QC]. exfalso. exact (QC (f_shift F) CL (Rp_cnorm w Hw _ _ _ _ _ H)).
    + rewrite (close_loop_general _ _ _ CL) in *.
      set (F1 := {| f_shift := f_shift F; f_moved := f_moved F || moves_of sub (f_shift F);
                    f_insts := ILoop (f_shift F) (f_shift sub - f_shift F) (sub_insts_of sub) false :: fst (cl_st3 sub F);
                    f_buff := snd (cl_st3 sub F) |}) in *.
      destruct (close_flush ctx sub F sI s H) as (adds & f3 & sI3 & EA & X3 & P3 & R3).
      destruct H as [H S].
      set (b3 := snd (cl_st3 sub F)) in *.
      set (ctxQ := fun a => buff_val b3 (a - ir_ptr sI3) + ctx a).
      assert (K3 : forall k, List.In k (keys (f_buff sub)) \/ k = f_shift F -> List.In k (keys (f_buff (comp w rest F1)))).
      { intros k Hk. apply comp_keys. subst F1 b3. cbn [f_buff]. rewrite cl_st3_snd. apply keys_set.
        destruct Hk as [Hk| ->]; [right; apply cl_st2_keys; left; exact Hk|left; reflexivity]. }
      assert (RQ : Rp w ctxQ (f_shift F) (fun _ => 0) sI3 s).
      { destruct R3 as (A & B & C & D). split; [exact A|split; [exact B|split; [|exact D]]].
        intros a. rewrite C. subst ctxQ. cbv beta. f_equal. lia. }
      destruct IHQ as [Q1 _]. specialize (Q1 (f_shift F) sI3 ctxQ RQ). fold sub in Q1.
      assert (Q1' := fun c1 c2 c3 => Q1 c1 c2 c3). clear Q1.
      assert (c1 : moves_of sub (f_shift F) = false -> forall k, List.In k (keys (f_buff sub)) -> ctxQ (ir_ptr sI3 + k) = 0).
      { intros M k Hk. subst ctxQ. cbv beta. replace (ir_ptr sI3 + k - ir_ptr sI3) with k by lia.
        subst b3. rewrite cl_st3_val, M. apply mem_In in Hk. rewrite Hk.
        rewrite P3, (SC_zero_at _ _ _ k SCH (K3 k (or_introl (proj1 (mem_In _ _) Hk)))).
        destruct (f_shift F =? k); reflexivity. }
      assert (c2 : moves_of sub (f_shift F) = true -> forall a, ctxQ a = 0).
      { intros M a. subst ctxQ. cbv beta. subst b3. rewrite cl_st3_val, M.
        destruct SCH as [_ SB]. rewrite SB; [destruct (f_shift F =? a - ir_ptr sI3); reflexivity|].
        apply comp_moved. subst F1. cbn [f_moved]. rewrite M. apply orb_true_r. }
      assert (c3 : moves_of sub (f_shift F) = false -> ctxQ (ir_ptr sI3 + f_shift F) = 0).
      { intros M. subst ctxQ. cbv beta. replace (ir_ptr sI3 + f_shift F - ir_ptr sI3) with (f_shift F) by lia.
        subst b3. rewrite cl_st3_val, Z.eqb_refl, P3, (SC_zero_at _ _ _ _ SCH (K3 _ (or_intror eq_refl))). reflexivity. }
      specialize (Q1' c1 c2 c3). cbv beta iota in Q1'. destruct Q1' as (f4 & sI4 & X4 & IOE).
      destruct (comp_extends w rest F1) as [new2 E2].
      exists (new2 ++ (the_loop sub (f_shift F) :: adds)). split.
      { rewrite E2. subst F1. cbn [f_insts]. rewrite EA. unfold the_loop. rewrite <- app_assoc. reflexivity. }
      exists (f3 + f4)%nat, sI4. split; [|exact IOE].
      rewrite rev_app_distr. apply ir_exec_app_stop. cbn [rev]. eapply ir_exec_app; [exact X3|exact X4|exact I].
  - (* loop exit *)
    intros body s C0. split.
    + intros sh sI ctx sub H K0 KA KC.
      assert (CZ : ctx (ir_ptr sI + sh) = 0) by (destruct (moves_of sub sh); [apply KA; reflexivity|apply KC; reflexivity]).
      exists 2%nat, sI. split; [apply exec_loop_skip; rewrite <- (cond_agree ctx sh sI s H CZ); exact C0|].
      split; [exact H|reflexivity].
    + intros sh sub CL NM. split; [reflexivity|split; [reflexivity|split; [reflexivity|apply Z.eqb_eq; exact C0]]].
  - (* one more iteration *)
    intros body s s1 o C0 _ IHP _ IHQ. split.
    + intros sh sI ctx sub H K0 KA KC.
      assert (CZ : ctx (ir_ptr sI + sh) = 0) by (destruct (moves_of sub sh); [apply KA; reflexivity|apply KC; reflexivity]).
      destruct (body_iteration body sh sI s s1 ctx IHP H K0 KA) as (fi & s2 & X & R2 & P2). fold sub in X, R2, P2.
      destruct IHQ as [Q1 _]. specialize (Q1 sh (ir_move s2 (f_shift sub - sh)) ctx R2). fold sub in Q1.
      assert (Q1' := fun c1 c2 c3 => Q1 c1 c2 c3). clear Q1.
      specialize (Q1' (fun M k Hk => eq_ind_r (fun z => ctx (z + k) = 0) (K0 M k Hk) (P2 M)) KA
                      (fun M => eq_ind_r (fun z => ctx (z + sh) = 0) (KC M) (P2 M))).
      cbv beta iota in Q1'.
      assert (CN : (ir_read sI sh =? 0) = false) by (rewrite <- (cond_agree ctx sh sI s H CZ); exact C0).
      destruct o as [s'|s'|s'|q s'|s']; try contradiction.
      * destruct Q1' as (f3 & sI' & X3 & R3 & P3). exists (S (fi + f3)), sI'. split; [|split; [exact R3|]].
        -- eapply exec_loop_enter; [exact CN|apply (ir_exec_mono w e fi _ _ _ X I); lia|apply (ir_exec_mono w e f3 _ _ _ X3 I); lia].
        -- intros M. rewrite (P3 M). apply P2. exact M.
      * destruct Q1' as (f3 & sI' & X3 & IOE). exists (S (fi + f3)), sI'. split; [|exact IOE].
        eapply exec_loop_enter; [exact CN|apply (ir_exec_mono w e fi _ _ _ X I); lia|apply (ir_exec_mono w e f3 _ _ _ X3 I); lia].
    + intros sh sub CL NM.
      destruct (clear_loop_shape w sub sh (comp_head w body _ (frame0_head sh)) CL) as (M1 & SH & EI & BV).
      destruct (IHP (frame0 sh) (synth s sh) (fun _ => 0) (Rf_frame0 _ sh _ s (synth_rel s sh NM)) (SC_zero _ _))
        as (new & EN & fi & sI1 & X & [R1 S1] & P1).
      fold sub in EN, R1, S1, P1. rewrite EI in EN. cbn [frame0 f_insts] in EN.
      destruct new as [|x new]; [|discriminate]. destruct fi as [|fi]; [discriminate|]. cbn [rev ir_exec] in X. injection X as <-.
      destruct R1 as (A1 & B1 & C1 & D1). unfold synth in *. cbn [ir_ptr ir_tape ir_io] in *.
      assert (PS : ptr s1 = ptr s) by lia.
      assert (TS : forall a, a <> ptr s -> tget (tape s1) a = tget (tape s) a).
      { intros a Na. rewrite C1, BV by lia. rewrite !Z.add_0_r. apply norm_small, NM. }
      assert (N1 : forall a, 0 <= tget (tape s1) a < 2 ^ w) by (intros a; rewrite C1; apply (norm_range w Hw)).
      destruct IHQ as [_ QC]. specialize (QC sh CL N1).
      destruct o as [s'|s'|s'|q s'|s']; try exact I; [|contradiction].
      destruct QC as (P' & I' & T' & Z'). split; [lia|split; [congruence|split; [|exact Z']]].
      intros a Na. rewrite T' by lia. apply TS. exact Na.
  - (* iteration stopped *)
    intros body s s1 C0 _ IHP. split.
    + intros sh sI ctx sub H K0 KA KC.
      assert (CZ : ctx (ir_ptr sI + sh) = 0) by (destruct (moves_of sub sh); [apply KA; reflexivity|apply KC; reflexivity]).
      destruct (body_stopped body sh sI s s1 ctx IHP H K0 KA) as (fi & s2 & X & IOE). fold sub in X.
      exists (S fi), s2. split; [|exact IOE]. apply exec_loop_stop; [|exact X].
      rewrite <- (cond_agree ctx sh sI s H CZ). exact C0.
    + intros sh sub CL NM.
      destruct (clear_loop_shape w sub sh (comp_head w body _ (frame0_head sh)) CL) as (M1 & SH & EI & BV).
      destruct (IHP (frame0 sh) (synth s sh) (fun _ => 0) (Rf_frame0 _ sh _ s (synth_rel s sh NM)) (SC_zero _ _))
        as (new & EN & fi & sI1 & X & IOE).
      fold sub in EN. rewrite EI in EN. cbn [frame0 f_insts] in EN.
      destruct new as [|x new]; [|discriminate]. destruct fi as [|fi]; discriminate.
Qed.
End Main2.

(** ** the level-0 pipeline *)
Definition same_events (o : outcome bfst) (o' : outcome irst) : Prop :=
  match o, o' with
  | Done s, Done s' => io s = ir_io s'
  | Stopped s, Stopped s' => io s = ir_io s'
  | _, _ => False
  end.

Lemma init_rel : forall w, 0 <= w -> Rp w (fun _ => 0) 0 (fun _ => 0) (ir0 0) bf0.
Proof.
  intros w Hw. unfold Rp, ir0, bf0. cbn [ptr io tape ir_ptr ir_io ir_tape].
  split; [reflexivity|split; [reflexivity|split]]; intros a; rewrite tget_empty.
  - unfold norm. rewrite Z.mod_0_l; [reflexivity|]. pose proof (pow_pos w Hw). lia.
  - pose proof (pow_pos w Hw). lia.
Qed.

Theorem level0_correct : forall w e src p f o, 0 <= w ->
  ast_of_source src = Some p -> bf_exec w e f p bf0 = o -> terminal o ->
  exists blk fi o', parse w src = POk blk /\ ir_run w e false 0 fi blk = o' /\ same_events o o'.
Proof.
  intros w e src p f o Hw HA HX T.
  rewrite (parse_comp w src p HA).
  exists (f_shift (comp w p (frame0 0)),
          rev (flush_nonzero (f_buff (comp w p (frame0 0))) (f_insts (comp w p (frame0 0))))).
  unfold ir_run. cbn [snd].
  pose proof (exec_bs w e f p bf0 o HX T) as HB.
  destruct (proj1 (sim_main w e Hw) p bf0 o HB (frame0 0) (ir0 0) (fun _ => 0)
              (Rf_frame0 w _ 0 _ _ (init_rel w Hw)) (SC_zero _ _)) as (new & EN & HO).
  set (fin := comp w p (frame0 0)) in *. cbn [frame0 f_insts] in EN. rewrite app_nil_r in EN.
  destruct o as [s'|s'|s'|q s'|s']; try contradiction.
  - destruct HO as (fi & sI' & X & [R1 S1] & _).
    destruct (flush_nonzero_sim w e Hw _ (f_shift fin) s' (f_buff fin) (f_insts fin) sI' S1 R1)
      as (adds & f2 & sI2 & EA & X2 & P2 & R2).
    exists (fi + f2)%nat, (Done sI2). split; [reflexivity|]. split.
    + rewrite EA, rev_app_distr, EN. eapply ir_exec_app; [exact X|exact X2|exact I].
    + destruct R2 as (_ & B & _). exact B.
  - destruct HO as (fi & sI' & X & IOE).
    exists fi, (Stopped sI'). split; [reflexivity|]. split; [|exact IOE].
    rewrite flush_nonzero_nz, rev_app_distr, rev_involutive, EN. apply ir_exec_app_stop. exact X.
Qed.

(** in terms of observable events *)
Corollary level0_events : forall w e src p f o, 0 <= w ->
  ast_of_source src = Some p -> bf_exec w e f p bf0 = o -> terminal o ->
  exists blk fi, parse w src = POk blk /\
    events ir_io (ir_run w e false 0 fi blk) = events io o /\
    finished_flag (ir_run w e false 0 fi blk) = true.
Proof.
  intros w e src p f o Hw HA HX T.
  destruct (level0_correct w e src p f o Hw HA HX T) as (blk & fi & o' & HP & HR & SE).
  exists blk, fi. split; [exact HP|]. rewrite HR. unfold same_events in SE. unfold events.
  destruct o as [s|s|s|q s|s]; try contradiction; destruct o' as [s'|s'|s'|q' s'|s']; try contradiction;
    cbn [outcome_state finished_flag]; rewrite SE; split; reflexivity.
Qed.

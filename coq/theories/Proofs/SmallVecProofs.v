(** * SmallVecProofs.v — the small vector refines [Vec] and drops every element exactly once. *)

From Coq Require Import ZArith List Bool Arith Lia Permutation.
From HPBF Require Import SmallVec.
Import ListNotations.

(** ** views *)
Lemma view_with_view : forall v l, view (with_view v l) = l.
Proof. intros [l0|l0] l; reflexivity. Qed.

Lemma view_push : forall N v x, view (sv_push N v x) = view v ++ [x].
Proof. intros N [l|l] x; simpl; [destruct (length l <? N)|]; reflexivity. Qed.

Lemma view_push_all : forall N xs v, view (fold_left (sv_push N) xs v) = view v ++ xs.
Proof.
  intros N xs. induction xs as [|x xs IH]; intros v; simpl.
  - rewrite app_nil_r. reflexivity.
  - rewrite IH, view_push, <- app_assoc. reflexivity.
Qed.

(** ** representation invariant: an inline vector never holds more than [N] elements *)
Definition wf (N : nat) (v : svec) : Prop := match v with SInline l => length l <= N | SHeap _ => True end.

Lemma wf_push : forall N v x, wf N v -> wf N (sv_push N v x).
Proof.
  intros N [l|l] x H; simpl in *; [|exact I].
  destruct (length l <? N) eqn:E; simpl; [|exact I].
  apply Nat.ltb_lt in E. rewrite app_length. simpl. lia.
Qed.

Lemma wf_push_all : forall N xs v, wf N v -> wf N (fold_left (sv_push N) xs v).
Proof. intros N xs. induction xs as [|x xs IH]; intros v H; simpl; [exact H|apply IH, wf_push, H]. Qed.

Lemma retain_split_length : forall l keep, length (fst (retain_split l keep)) <= length l.
Proof.
  induction l as [|x t IH]; intros keep; simpl; [lia|].
  specialize (IH (tl keep)). destruct (retain_split t (tl keep)) as [k r].
  destruct (match keep with [] => true | b :: _ => b end); simpl in *; lia.
Qed.

Lemma dedup_split_length : forall l prev, length (fst (dedup_split prev l)) <= length l.
Proof.
  induction l as [|x t IH]; intros prev; simpl; [lia|].
  specialize (IH (Some (snd x))). destruct (dedup_split (Some (snd x)) t) as [k r].
  destruct (match prev with Some p => Z.eqb p (snd x) | None => false end); simpl in *; lia.
Qed.

Lemma insert_elem_perm : forall x l, Permutation (insert_elem x l) (x :: l).
Proof.
  intros x l. induction l as [|y t IH]; simpl; [reflexivity|].
  destruct (Z.leb (snd x) (snd y)); [reflexivity|].
  rewrite IH. apply perm_swap.
Qed.

Lemma sort_elems_perm : forall l, Permutation (sort_elems l) l.
Proof.
  induction l as [|x t IH]; simpl; [reflexivity|].
  rewrite insert_elem_perm. apply perm_skip, IH.
Qed.

Lemma wf_with_view : forall N v l, wf N v -> length l <= length (view v) -> wf N (with_view v l).
Proof. intros N [l0|l0] l H Hl; simpl in *; [lia|exact I]. Qed.

Definition swf (N : nat) (s : sstate) : Prop := wf N (va s) /\ wf N (vb s).

Lemma get_set_same : forall s r v, get (set s r v) r = v.
Proof. intros s [|] v; reflexivity. Qed.
Lemma get_set_other : forall s r v, get (set s r v) (negb r) = get s (negb r).
Proof. intros s [|] v; reflexivity. Qed.
Lemma next_set : forall s r v, next_id (set s r v) = next_id s.
Proof. intros s [|] v; reflexivity. Qed.
Lemma dropped_set : forall s r v, dropped (set s r v) = dropped s.
Proof. intros s [|] v; reflexivity. Qed.
Lemma get_drop : forall s l r, get (drop_ids s l) r = get s r.
Proof. intros s l [|]; reflexivity. Qed.
Lemma get_bump : forall s n r, get (bump s n) r = get s r.
Proof. intros s n [|]; reflexivity. Qed.

Lemma swf_set : forall N s r v, swf N s -> wf N v -> swf N (set s r v).
Proof. intros N s [|] v [Ha Hb] Hv; split; simpl; assumption. Qed.
Lemma swf_get : forall N s r, swf N s -> wf N (get s r).
Proof. intros N s [|] [Ha Hb]; assumption. Qed.

Lemma fresh_length : forall vals n, length (fresh n vals) = length vals.
Proof. induction vals as [|v t IH]; intros n; simpl; [reflexivity|rewrite IH; reflexivity]. Qed.

Lemma step_wf : forall N s o, swf N s -> swf N (fst (sv_step N s o)).
Proof.
  intros N s o H. destruct o as [r|r n|r val|r vals|r|r keep|r|src| | |r|r take|r]; simpl.
  - apply swf_set; [exact H|simpl; lia].
  - apply swf_set; [exact H|]. unfold sv_with_capacity. destruct (n <=? N); simpl; [lia|exact I].
  - destruct H as [Ha Hb]. unfold bump. destruct r; split; simpl; try assumption; apply wf_push; assumption.
  - destruct H as [Ha Hb]. unfold bump. destruct r; split; simpl; try assumption; apply wf_push_all; assumption.
  - apply swf_set; [exact H|]. apply wf_with_view; [apply swf_get, H|simpl; lia].
  - pose proof (retain_split_length (view (get s r)) keep) as L.
    destruct (retain_split (view (get s r)) keep) as [kept rej]. simpl in *.
    apply swf_set; [exact H|]. apply wf_with_view; [apply swf_get, H|exact L].
  - pose proof (dedup_split_length (view (get s r)) None) as L.
    destruct (dedup_split None (view (get s r))) as [kept rej]. simpl in *.
    apply swf_set; [exact H|]. apply wf_with_view; [apply swf_get, H|exact L].
  - destruct H as [Ha Hb]. unfold bump.
    assert (W : wf N (if length (view (get s src)) <=? N then SInline (fresh (next_id s) (map snd (view (get s src))))
                      else SHeap (fresh (next_id s) (map snd (view (get s src)))))).
    { destruct (length (view (get s src)) <=? N) eqn:E; simpl; [|exact I].
      apply Nat.leb_le in E. rewrite fresh_length, map_length. exact E. }
    destruct src; split; simpl; assumption.
  - exact H.
  - exact H.
  - apply swf_set; [exact H|]. apply wf_with_view; [apply swf_get, H|].
    rewrite (Permutation_length (sort_elems_perm _)). lia.
  - apply swf_set; [exact H|simpl; lia].
  - exact H.
Qed.

(** ** refinement of [Vec] *)
Definition sim (s : sstate) (l : lstate) : Prop :=
  view (va s) = la l /\ view (vb s) = lb l /\ next_id s = lnext l.

Lemma sim_get : forall s l r, sim s l -> view (get s r) = lget l r.
Proof. intros s l [|] [A [B C]]; assumption. Qed.

Lemma sim_set : forall s l r v x, sim s l -> view v = x -> sim (set s r v) (lset l r x).
Proof. intros s l [|] v x [A [B C]] H; repeat split; simpl; assumption. Qed.

Lemma sim_drop : forall s l d, sim s l -> sim (drop_ids s d) l.
Proof. intros s l d [A [B C]]; repeat split; assumption. Qed.

Lemma sim_bump : forall s l n, sim s l -> sim (bump s n) (lbump l n).
Proof. intros s l n [A [B C]]; repeat split; simpl; try assumption. rewrite C. reflexivity. Qed.

Lemma step_sim : forall N s l o, sim s l ->
  sim (fst (sv_step N s o)) (fst (l_step l o)) /\ obs_erase (snd (sv_step N s o)) = snd (l_step l o).
Proof.
  intros N s l o H. pose proof H as [HA [HB HN]].
  destruct o as [r|r n|r val|r vals|r|r keep|r|src| | |r|r take|r]; simpl.
  - split; [apply sim_set; [apply sim_drop, H|reflexivity]|reflexivity].
  - split; [apply sim_set; [apply sim_drop, H|]|reflexivity].
    unfold sv_with_capacity. destruct (n <=? N); reflexivity.
  - rewrite view_push, (sim_get s l r H), HN.
    split; [apply sim_bump, sim_set; [exact H|]|reflexivity].
    rewrite view_push, (sim_get s l r H). reflexivity.
  - rewrite view_push_all, (sim_get s l r H), HN.
    split; [apply sim_bump, sim_set; [exact H|]|reflexivity].
    rewrite view_push_all, (sim_get s l r H). reflexivity.
  - split; [apply sim_set; [apply sim_drop, H|apply view_with_view]|reflexivity].
  - rewrite (sim_get s l r H). destruct (retain_split (lget l r) keep) as [kept rej] eqn:E. simpl.
    split; [apply sim_set; [apply sim_drop, H|apply view_with_view]|reflexivity].
  - rewrite (sim_get s l r H). destruct (dedup_split None (lget l r)) as [kept rej] eqn:E. simpl.
    split; [apply sim_set; [apply sim_drop, H|apply view_with_view]|reflexivity].
  - rewrite (sim_get s l src H), HN.
    assert (V : view (if length (lget l src) <=? N then SInline (fresh (lnext l) (map snd (lget l src)))
                      else SHeap (fresh (lnext l) (map snd (lget l src)))) = fresh (lnext l) (map snd (lget l src))).
    { destruct (length (lget l src) <=? N); reflexivity. }
    split.
    + apply sim_bump, sim_set; [apply sim_drop, H|exact V].
    + reflexivity.
  - rewrite HA, HB. split; [exact H|reflexivity].
  - rewrite HA, HB. split; [exact H|reflexivity].
  - rewrite view_with_view, (sim_get s l r H).
    split; [apply sim_set; [exact H|apply view_with_view]|reflexivity].
  - rewrite (sim_get s l r H). split; [apply sim_set; [apply sim_drop, H|reflexivity]|reflexivity].
  - rewrite (sim_get s l r H). split; [exact H|reflexivity].
Qed.

Lemma run_sim : forall N ops s l, sim s l -> map obs_erase (fst (sv_run N ops s)) = l_run ops l.
Proof.
  intros N ops. induction ops as [|o rest IH]; intros s l H; simpl; [reflexivity|].
  destruct (step_sim N s l o H) as [H1 H2].
  destruct (sv_step N s o) as [s' ob]. destruct (l_step l o) as [l' lob]. simpl in *.
  specialize (IH s' l' H1). destruct (sv_run N rest s') as [obs sf]. simpl in *.
  rewrite H2, IH. reflexivity.
Qed.

Theorem sv_refines : forall N ops, map obs_erase (fst (sv_run N ops sstate0)) = l_run ops lstate0.
Proof. intros. apply run_sim. repeat split. Qed.

(** ** every element is dropped exactly once *)
Definition linear (s : sstate) : Prop := Permutation (sv_final s) (seq 0 (next_id s)).

Lemma final_get : forall s r,
  Permutation (sv_final s) (dropped s ++ ids (view (get s r)) ++ ids (view (get s (negb r)))).
Proof.
  intros s [|]; unfold sv_final; simpl; [|reflexivity].
  apply Permutation_app_head. apply Permutation_app_comm.
Qed.

Lemma final_of : forall s r D X Y n,
  dropped s = D -> ids (view (get s r)) = X -> ids (view (get s (negb r))) = Y -> next_id s = n ->
  Permutation (D ++ X ++ Y) (seq 0 n) -> linear s.
Proof. intros s r D X Y n <- <- <- <- H. unfold linear. rewrite (final_get s r). exact H. Qed.

Lemma linear_inv : forall s r, linear s ->
  Permutation (dropped s ++ ids (view (get s r)) ++ ids (view (get s (negb r)))) (seq 0 (next_id s)).
Proof. intros s r H. rewrite <- (final_get s r). exact H. Qed.

Lemma ids_app : forall a b, ids (a ++ b) = ids a ++ ids b.
Proof. intros. unfold ids. apply map_app. Qed.

Lemma ids_fresh : forall vals n, ids (fresh n vals) = seq n (length vals).
Proof. induction vals as [|v t IH]; intros n; simpl; [reflexivity|]. f_equal. apply IH. Qed.

Lemma retain_split_perm : forall l keep, Permutation (fst (retain_split l keep) ++ snd (retain_split l keep)) l.
Proof.
  induction l as [|x t IH]; intros keep; simpl; [reflexivity|].
  specialize (IH (tl keep)). destruct (retain_split t (tl keep)) as [k r]. simpl in IH.
  destruct (match keep with [] => true | b :: _ => b end); simpl.
  - apply perm_skip, IH.
  - rewrite <- Permutation_middle. apply perm_skip, IH.
Qed.

Lemma dedup_split_perm : forall l prev, Permutation (fst (dedup_split prev l) ++ snd (dedup_split prev l)) l.
Proof.
  induction l as [|x t IH]; intros prev; simpl; [reflexivity|].
  specialize (IH (Some (snd x))). destruct (dedup_split (Some (snd x)) t) as [k r]. simpl in IH.
  destruct (match prev with Some p => Z.eqb p (snd x) | None => false end); simpl.
  - rewrite <- Permutation_middle. apply perm_skip, IH.
  - apply perm_skip, IH.
Qed.

Lemma ids_perm : forall a b, Permutation a b -> Permutation (ids a) (ids b).
Proof. intros. unfold ids. apply Permutation_map. assumption. Qed.

Lemma seq_extend : forall n k, seq 0 (n + k) = seq 0 n ++ seq n k.
Proof. intros. rewrite seq_app. reflexivity. Qed.

(** moving the ids of the touched register (or part of them) to the ledger *)
Lemma perm_move : forall (D X1 X2 Y : list nat) T,
  Permutation (D ++ (X1 ++ X2) ++ Y) T -> Permutation ((D ++ X2) ++ X1 ++ Y) T.
Proof.
  intros D X1 X2 Y T H. rewrite <- H.
  rewrite <- !app_assoc. apply Permutation_app_head.
  rewrite !app_assoc. apply Permutation_app_tail. apply Permutation_app_comm.
Qed.

Lemma perm_grow : forall (D X Y F : list nat) T,
  Permutation (D ++ X ++ Y) T -> Permutation (D ++ (X ++ F) ++ Y) (T ++ F).
Proof.
  intros D X Y F T H. rewrite <- H. rewrite <- !app_assoc. apply Permutation_app_head.
  apply Permutation_app_head. apply Permutation_app_comm.
Qed.

Lemma perm_clone : forall (D X Y F : list nat) T,
  Permutation (D ++ Y ++ X) T -> Permutation ((D ++ Y) ++ F ++ X) (T ++ F).
Proof.
  intros D X Y F T H. rewrite <- H. rewrite <- !app_assoc. apply Permutation_app_head.
  apply Permutation_app_head. apply Permutation_app_comm.
Qed.

Lemma step_linear : forall N s o, linear s -> linear (fst (sv_step N s o)).
Proof.
  intros N s o H.
  destruct o as [r|r n|r val|r vals|r|r keep|r|src| | |r|r take|r]; simpl.
  - (* new *)
    eapply (final_of _ r); [rewrite dropped_set; reflexivity|rewrite get_set_same; reflexivity
      |rewrite get_set_other, get_drop; reflexivity|rewrite next_set; reflexivity|].
    simpl. pose proof (linear_inv s r H) as P.
    apply (perm_move (dropped s) [] (ids (view (get s r)))). exact P.
  - eapply (final_of _ r); [rewrite dropped_set; reflexivity|rewrite get_set_same; reflexivity
      |rewrite get_set_other, get_drop; reflexivity|rewrite next_set; reflexivity|].
    assert (E : ids (view (sv_with_capacity N n)) = []) by (unfold sv_with_capacity; destruct (n <=? N); reflexivity).
    rewrite E. simpl. pose proof (linear_inv s r H) as P.
    apply (perm_move (dropped s) [] (ids (view (get s r)))). exact P.
  - (* push *)
    eapply (final_of _ r); [reflexivity|rewrite get_bump, get_set_same; reflexivity
      |rewrite get_bump, get_set_other; reflexivity|reflexivity|].
    simpl. rewrite dropped_set, next_set, view_push, ids_app, seq_extend. simpl.
    apply perm_grow. exact (linear_inv s r H).
  - eapply (final_of _ r); [reflexivity|rewrite get_bump, get_set_same; reflexivity
      |rewrite get_bump, get_set_other; reflexivity|reflexivity|].
    simpl. rewrite dropped_set, next_set, view_push_all, ids_app, ids_fresh, seq_extend.
    apply perm_grow. exact (linear_inv s r H).
  - (* clear *)
    eapply (final_of _ r); [rewrite dropped_set; reflexivity|rewrite get_set_same; reflexivity
      |rewrite get_set_other, get_drop; reflexivity|rewrite next_set; reflexivity|].
    rewrite view_with_view. simpl. pose proof (linear_inv s r H) as P.
    apply (perm_move (dropped s) [] (ids (view (get s r)))). exact P.
  - (* retain *)
    pose proof (retain_split_perm (view (get s r)) keep) as RP.
    destruct (retain_split (view (get s r)) keep) as [kept rej]. simpl in *.
    eapply (final_of _ r); [rewrite dropped_set; reflexivity|rewrite get_set_same; reflexivity
      |rewrite get_set_other, get_drop; reflexivity|rewrite next_set; reflexivity|].
    rewrite view_with_view. simpl. apply perm_move.
    rewrite <- ids_app. rewrite (ids_perm _ _ RP). exact (linear_inv s r H).
  - (* dedup *)
    pose proof (dedup_split_perm (view (get s r)) None) as RP.
    destruct (dedup_split None (view (get s r))) as [kept rej]. simpl in *.
    eapply (final_of _ r); [rewrite dropped_set; reflexivity|rewrite get_set_same; reflexivity
      |rewrite get_set_other, get_drop; reflexivity|rewrite next_set; reflexivity|].
    rewrite view_with_view. simpl. apply perm_move.
    rewrite <- ids_app. rewrite (ids_perm _ _ RP). exact (linear_inv s r H).
  - (* clone src into the other register *)
    set (l := view (get s src)).
    set (v' := if length l <=? N then SInline (fresh (next_id s) (map snd l)) else SHeap (fresh (next_id s) (map snd l))).
    assert (V : view v' = fresh (next_id s) (map snd l)) by (unfold v'; destruct (length l <=? N); reflexivity).
    eapply (final_of _ (negb src)); [reflexivity|rewrite get_bump, get_set_same; reflexivity
      |rewrite get_bump, get_set_other, get_drop; reflexivity|reflexivity|].
    simpl. rewrite dropped_set, next_set, V, ids_fresh, map_length, negb_involutive. simpl.
    rewrite seq_extend. fold l.
    pose proof (linear_inv s (negb src) H) as P. rewrite negb_involutive in P. fold l in P.
    (* old contents of the destination go to the ledger, fresh ids appear *)
    apply perm_clone. exact P.
  - exact H.
  - exact H.
  - (* sort *)
    eapply (final_of _ r); [rewrite dropped_set; reflexivity|rewrite get_set_same; reflexivity
      |rewrite get_set_other; reflexivity|rewrite next_set; reflexivity|].
    rewrite view_with_view. rewrite (ids_perm _ _ (sort_elems_perm _)). exact (linear_inv s r H).
  - (* into_iter *)
    eapply (final_of _ r); [rewrite dropped_set; reflexivity|rewrite get_set_same; reflexivity
      |rewrite get_set_other, get_drop; reflexivity|rewrite next_set; reflexivity|].
    simpl. rewrite <- ids_app, firstn_skipn.
    apply (perm_move (dropped s) [] (ids (view (get s r)))). exact (linear_inv s r H).
  - exact H.
Qed.

Lemma run_linear : forall N ops s, linear s -> linear (snd (sv_run N ops s)).
Proof.
  intros N ops. induction ops as [|o rest IH]; intros s H; simpl; [exact H|].
  pose proof (step_linear N s o H) as H1. destruct (sv_step N s o) as [s' ob]. simpl in *.
  specialize (IH s' H1). destruct (sv_run N rest s') as [obs sf]. exact IH.
Qed.

Theorem sv_linear : forall N ops,
  let sf := snd (sv_run N ops sstate0) in Permutation (sv_final sf) (seq 0 (next_id sf)).
Proof. intros N ops. apply run_linear. unfold linear. simpl. reflexivity. Qed.

Corollary sv_dropped_once : forall N ops,
  let sf := snd (sv_run N ops sstate0) in
  NoDup (sv_final sf) /\ forall i, i < next_id sf <-> In i (sv_final sf).
Proof.
  intros N ops sf. pose proof (sv_linear N ops) as P. fold sf in P. split.
  - eapply Permutation_NoDup; [symmetry; exact P|apply seq_NoDup].
  - intros i. split; intros Hi.
    + eapply Permutation_in; [symmetry; exact P|]. apply in_seq. lia.
    + apply (Permutation_in _ P) in Hi. apply in_seq in Hi. lia.
Qed.

Theorem sv_rep_inv : forall N ops, swf N (snd (sv_run N ops sstate0)).
Proof.
  intros N ops. assert (G : forall ops s, swf N s -> swf N (snd (sv_run N ops s))).
  { clear ops. induction ops as [|o rest IH]; intros s H; simpl; [exact H|].
    pose proof (step_wf N s o H) as H1. destruct (sv_step N s o) as [s' ob]. simpl in *.
    specialize (IH s' H1). destruct (sv_run N rest s') as [obs sf]. exact IH. }
  apply G. split; simpl; lia.
Qed.

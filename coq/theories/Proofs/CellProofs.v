(** * CellProofs.v — proofs about [Cell.v] (property C14). *)

From Coq Require Import ZArith List Bool Lia Zpow_facts Znumtheory.
From HPBF Require Import Cell.
Import ListNotations.
Open Scope Z_scope.

(** ** Basic facts *)

Lemma pow2_pos : forall w, 0 <= w -> 0 < 2 ^ w.
Proof. intros. apply Z.pow_pos_nonneg; lia. Qed.

Lemma pow2_gt1 : forall w, 1 <= w -> 1 < 2 ^ w.
Proof. intros. apply Z.pow_gt_1; lia. Qed.

Lemma pow2_split : forall a b, 0 <= a -> 0 <= b -> 2 ^ (a + b) = 2 ^ a * 2 ^ b.
Proof. intros. apply Z.pow_add_r; lia. Qed.

Lemma pow2_le : forall a b, 0 <= a <= b -> 2 ^ a <= 2 ^ b.
Proof. intros. apply Z.pow_le_mono_r; lia. Qed.

Lemma pow2_lt : forall a b, 0 <= a < b -> 2 ^ a < 2 ^ b.
Proof. intros. apply Z.pow_lt_mono_r; lia. Qed.

Lemma is_odd_spec : forall a, is_odd a = Z.odd a.
Proof.
  intros a. unfold is_odd.
  change 1 with (Z.ones 1) at 1. rewrite Z.land_ones by lia.
  change (2 ^ 1) with 2. rewrite Zmod_odd. destruct (Z.odd a); reflexivity.
Qed.

Lemma wadd_range : forall w a b, 0 <= w -> 0 <= wadd w a b < 2 ^ w.
Proof. intros. unfold wadd. apply Z.mod_pos_bound. apply pow2_pos; lia. Qed.

Lemma wmul_range : forall w a b, 0 <= w -> 0 <= wmul w a b < 2 ^ w.
Proof. intros. unfold wmul. apply Z.mod_pos_bound. apply pow2_pos; lia. Qed.

Lemma wneg_range : forall w a, 0 <= w -> 0 <= wneg w a < 2 ^ w.
Proof. intros. unfold wneg. apply Z.mod_pos_bound. apply pow2_pos; lia. Qed.

Lemma wneg_spec : forall w a, 0 <= w -> wadd w (wneg w a) a = 0.
Proof.
  intros. unfold wadd, wneg. pose proof (pow2_pos w H).
  rewrite Z.add_mod_idemp_l by lia. replace (- a + a) with 0 by lia. apply Z.mod_0_l. lia.
Qed.

Lemma wshr_spec : forall w a k, 0 <= k < w -> wshr w a k = a / 2 ^ k.
Proof.
  intros. unfold wshr. destruct (k <? w) eqn:E; [|apply Z.ltb_ge in E; lia].
  apply Z.shiftr_div_pow2. lia.
Qed.

Lemma wshr_big : forall w a k, w <= k -> wshr w a k = 0.
Proof. intros. unfold wshr. destruct (k <? w) eqn:E; [apply Z.ltb_lt in E; lia|reflexivity]. Qed.

Lemma wshl_spec : forall w a k, 0 <= k < w -> wshl w a k = (a * 2 ^ k) mod 2 ^ w.
Proof.
  intros. unfold wshl. destruct (k <? w) eqn:E; [|apply Z.ltb_ge in E; lia].
  rewrite Z.shiftl_mul_pow2 by lia. reflexivity.
Qed.

Lemma wshl_big : forall w a k, w <= k -> wshl w a k = 0.
Proof. intros. unfold wshl. destruct (k <? w) eqn:E; [apply Z.ltb_lt in E; lia|reflexivity]. Qed.

(** halving an exponent in range: [exp.wrapping_shr(1)] *)
Lemma wshr1_half : forall w e, 1 <= w -> 0 <= e < 2 ^ w -> wshr w e 1 = e / 2.
Proof.
  intros w e Hw He. destruct (Z.eq_dec w 1) as [->|Hn].
  - rewrite wshr_big by lia. change (2 ^ 1) with 2 in He. symmetry. apply Z.div_small. lia.
  - rewrite wshr_spec by lia. reflexivity.
Qed.

(** ** Trailing zeros *)

Lemma tz_pos_nonneg : forall p, 0 <= tz_pos p.
Proof. induction p as [p IH|p IH|]; cbn [tz_pos]; lia. Qed.

Lemma tz_pos_spec : forall p, exists q, Zpos p = 2 ^ (tz_pos p) * q /\ Z.odd q = true.
Proof.
  induction p as [p IH|p IH|].
  - exists (Zpos p~1). simpl tz_pos. split; [rewrite Z.pow_0_r; lia|reflexivity].
  - destruct IH as [q [Hq Ho]]. exists q. split; [|exact Ho].
    cbn [tz_pos]. pose proof (tz_pos_nonneg p).
    replace (1 + tz_pos p) with (Z.succ (tz_pos p)) by lia.
    rewrite Z.pow_succ_r by lia. rewrite <- Z.mul_assoc, <- Hq. reflexivity.
  - exists 1. simpl. split; reflexivity.
Qed.

Lemma tz_nonneg : forall w a, 0 <= w -> 0 <= tz w a.
Proof. intros w a Hw. destruct a; simpl; try lia. apply tz_pos_nonneg. Qed.

Lemma tz_spec : forall w a, 0 < a -> exists q, a = 2 ^ (tz w a) * q /\ Z.odd q = true /\ 0 < q.
Proof.
  intros w a Ha. destruct a as [|p|p]; try lia.
  destruct (tz_pos_spec p) as [q [Hq Ho]]. exists q. simpl tz. repeat split; try assumption.
  pose proof (tz_pos_nonneg p). pose proof (pow2_pos (tz_pos p) H). nia.
Qed.

Lemma tz_lt_width : forall w a, 0 <= w -> 0 < a < 2 ^ w -> tz w a < w.
Proof.
  intros w a Hw Ha. destruct (tz_spec w a ltac:(lia)) as [q [Hq [Ho Hpos]]].
  pose proof (tz_nonneg w a Hw) as Hn.
  destruct (Z_lt_le_dec (tz w a) w) as [|Hge]; [assumption|exfalso].
  pose proof (pow2_le w (tz w a) ltac:(lia)). nia.
Qed.

(** ** Modular power *)

Lemma odd_mod2 : forall e, Z.odd e = true -> e = 2 * (e / 2) + 1.
Proof. intros e H. pose proof (Z.div_mod e 2 ltac:(lia)) as D. rewrite Zmod_odd, H in D. lia. Qed.

Lemma even_mod2 : forall e, Z.odd e = false -> e = 2 * (e / 2).
Proof. intros e H. pose proof (Z.div_mod e 2 ltac:(lia)) as D. rewrite Zmod_odd, H in D. lia. Qed.

Lemma wpow_loop_spec : forall fuel w base e result,
  1 <= w -> 0 <= e < 2 ^ (Z.of_nat fuel) -> e < 2 ^ w -> 0 <= result < 2 ^ w ->
  wpow_loop fuel w base e result = (result * base ^ e) mod 2 ^ w.
Proof.
  induction fuel as [|f IH]; intros w base e result Hw He Hew Hr.
  - simpl in He. assert (e = 0) by lia. subst e. simpl.
    rewrite Z.mul_1_r. symmetry. apply Z.mod_small. lia.
  - pose proof (pow2_pos w ltac:(lia)) as HM.
    cbn [wpow_loop]. destruct (e =? 0) eqn:E0.
    + apply Z.eqb_eq in E0. subst e. rewrite Z.pow_0_r, Z.mul_1_r.
      symmetry. apply Z.mod_small. lia.
    + apply Z.eqb_neq in E0.
      rewrite wshr1_half by lia.
      assert (Hhalf : 0 <= e / 2 < 2 ^ Z.of_nat f).
      { rewrite Nat2Z.inj_succ, Z.pow_succ_r in He by lia.
        split; [apply Z.div_pos; lia|apply Z.div_lt_upper_bound; lia]. }
      assert (Hhalfw : e / 2 < 2 ^ w).
      { assert (e / 2 <= e) by (apply Z.div_le_upper_bound; lia). lia. }
      rewrite is_odd_spec.
      destruct (Z.odd e) eqn:Ho.
      * rewrite IH by (try lia; apply wmul_range; lia).
        unfold wmul.
        assert (Hpe : base ^ e = (base * base) ^ (e / 2) * base).
        { rewrite (odd_mod2 e Ho) at 1.
          rewrite Z.pow_add_r, Z.pow_1_r, Z.pow_mul_r by (try lia; apply Z.div_pos; lia).
          rewrite Z.pow_2_r. reflexivity. }
        rewrite Hpe.
        rewrite Z.mul_mod_idemp_l by lia.
        rewrite <- Z.mul_mod_idemp_r by lia.
        rewrite <- (Zpower_mod (base * base)) by lia.
        rewrite Z.mul_mod_idemp_r by lia. f_equal. ring.
      * rewrite IH by (try lia).
        unfold wmul.
        assert (Hpe : base ^ e = (base * base) ^ (e / 2)).
        { rewrite (even_mod2 e Ho) at 1.
          rewrite Z.pow_mul_r by (try lia; apply Z.div_pos; lia).
          rewrite Z.pow_2_r. reflexivity. }
        rewrite Hpe.
        rewrite <- Z.mul_mod_idemp_r by lia.
        rewrite <- (Zpower_mod (base * base)) by lia.
        rewrite Z.mul_mod_idemp_r by lia. reflexivity.
Qed.

Theorem wpow_spec : forall w b e, 1 <= w -> 0 <= e < 2 ^ w -> wpow w b e = (b ^ e) mod 2 ^ w.
Proof.
  intros w b e Hw He. unfold wpow.
  rewrite wpow_loop_spec; try lia.
  - rewrite Z.mul_1_l. reflexivity.
  - rewrite Z2Nat.id by lia. lia.
  - pose proof (pow2_gt1 w Hw). lia.
Qed.

(** power = repeated multiplication *)
Fixpoint wpow_iter (w b : Z) (n : nat) : Z :=
  match n with O => 1 mod 2 ^ w | S n' => wmul w b (wpow_iter w b n') end.

Lemma wpow_iter_spec : forall w b n, 1 <= w -> wpow_iter w b n = (b ^ Z.of_nat n) mod 2 ^ w.
Proof.
  intros w b n Hw. pose proof (pow2_pos w ltac:(lia)).
  induction n as [|n IH]; [reflexivity|].
  cbn [wpow_iter]. rewrite IH. unfold wmul. rewrite Z.mul_mod_idemp_r by lia.
  rewrite Nat2Z.inj_succ, Z.pow_succ_r by lia. reflexivity.
Qed.

Theorem wpow_repeated_mul : forall w b e, 1 <= w -> 0 <= e < 2 ^ w ->
  wpow w b e = wpow_iter w b (Z.to_nat e).
Proof.
  intros. rewrite wpow_spec, wpow_iter_spec by lia. rewrite Z2Nat.id by lia. reflexivity.
Qed.

(** ** 2-adic inverse of odd numbers *)

Lemma odd_pow2_one : forall m, 0 <= m -> forall d, Z.odd d = true ->
  exists t, d ^ (2 ^ m) = 1 + 2 ^ (m + 1) * t.
Proof.
  intros m Hm. pattern m. apply natlike_ind; [ | | exact Hm]; clear m Hm.
  - intros d Hd. change (2 ^ 0) with 1. rewrite Z.pow_1_r. change (2 ^ (0+1)) with 2.
    exists (d / 2). pose proof (Z.div_mod d 2 ltac:(lia)) as H. rewrite Zmod_odd, Hd in H. lia.
  - intros x Hx IH d Hd. destruct (IH d Hd) as [t Ht].
    rewrite (Z.pow_succ_r 2 x) by lia. rewrite (Z.mul_comm 2).
    rewrite Z.pow_mul_r by lia. rewrite Ht.
    replace (Z.succ x + 1) with (Z.succ (x + 1)) by lia.
    rewrite (Z.pow_succ_r 2 (x+1)) by lia.
    exists (t + 2 ^ x * t * t).
    replace (2 ^ (x + 1)) with (2 * 2 ^ x) by (rewrite Z.pow_add_r by lia; change (2^1) with 2; ring).
    rewrite Z.pow_2_r. ring.
Qed.

Lemma odd_inverse : forall m d, 1 <= m -> Z.odd d = true ->
  (d * d ^ (2 ^ (m - 1) - 1)) mod 2 ^ m = 1.
Proof.
  intros m d Hm Hd.
  assert (Hp : 0 < 2 ^ (m - 1)) by (apply Z.pow_pos_nonneg; lia).
  replace (d * d ^ (2 ^ (m - 1) - 1)) with (d ^ (2 ^ (m - 1))).
  2:{ replace (2 ^ (m - 1)) with (Z.succ (2 ^ (m - 1) - 1)) at 1 by lia.
      rewrite Z.pow_succ_r by lia. reflexivity. }
  destruct (odd_pow2_one (m - 1) ltac:(lia) d Hd) as [t Ht].
  rewrite Ht. replace (m - 1 + 1) with m by lia.
  rewrite Z.mul_comm, Z_mod_plus_full. apply Z.mod_small.
  assert (1 < 2 ^ m) by (apply Z.pow_gt_1; lia). lia.
Qed.

(** the exponent computed by the code: [ONE.wrapping_shl(m - 1).wrapping_add(NEG_ONE)] *)
Lemma inv_exponent : forall w m, 1 <= m <= w ->
  wadd w (wshl w 1 (m - 1)) (neg_one w) = 2 ^ (m - 1) - 1.
Proof.
  intros w m Hm. unfold wadd, neg_one. rewrite wshl_spec by lia.
  pose proof (pow2_pos w ltac:(lia)) as HM.
  pose proof (pow2_lt (m - 1) w ltac:(lia)) as Hlt.
  pose proof (pow2_pos (m - 1) ltac:(lia)) as Hp.
  rewrite Z.mul_1_l. rewrite (Z.mod_small (2 ^ (m - 1))) by lia.
  replace (2 ^ (m - 1) + (2 ^ w - 1)) with (2 ^ (m - 1) - 1 + 1 * 2 ^ w) by lia.
  rewrite Z_mod_plus_full. apply Z.mod_small. lia.
Qed.

(** even numbers have no inverse *)
Lemma even_no_inverse : forall w x y, 1 <= w -> Z.odd x = false -> (x * y) mod 2 ^ w <> 1.
Proof.
  intros w x y Hw Hx Heq.
  pose proof (pow2_pos w ltac:(lia)) as HM.
  pose proof (Z.div_mod (x * y) (2 ^ w) ltac:(lia)) as D. rewrite Heq in D.
  assert (Hodd : Z.odd (x * y) = true).
  { rewrite D. replace w with (Z.succ (w - 1)) by lia. rewrite Z.pow_succ_r by lia.
    replace (2 * 2 ^ (w - 1) * (x * y / (2 * 2 ^ (w - 1))) + 1)
      with (1 + 2 * (2 ^ (w - 1) * (x * y / (2 * 2 ^ (w - 1))))) by ring.
    rewrite Z.odd_add_mul_2. reflexivity. }
  rewrite Z.odd_mul, Hx in Hodd. discriminate.
Qed.

Theorem winv_spec : forall w x, 1 <= w -> 0 <= x < 2 ^ w ->
  match winv w x with
  | Some y => Z.odd x = true /\ 0 <= y < 2 ^ w /\ (x * y) mod 2 ^ w = 1
  | None => Z.odd x = false /\ forall y, (x * y) mod 2 ^ w <> 1
  end.
Proof.
  intros w x Hw Hx. unfold winv. rewrite is_odd_spec.
  pose proof (pow2_pos w ltac:(lia)) as HM.
  destruct (Z.odd x) eqn:Ho.
  - rewrite (inv_exponent w w) by lia.
    assert (Hp : 0 < 2 ^ (w - 1)) by (apply pow2_pos; lia).
    assert (He : 0 <= 2 ^ (w - 1) - 1 < 2 ^ w).
    { pose proof (pow2_lt (w - 1) w ltac:(lia)). lia. }
    rewrite wpow_spec by lia. split; [reflexivity|]. split; [apply Z.mod_pos_bound; lia|].
    rewrite Z.mul_mod_idemp_r by lia. apply odd_inverse; assumption.
  - split; [reflexivity|]. intros y. apply even_no_inverse; assumption.
Qed.

(** ** Division *)

Lemma mask_spec : forall w s, 1 <= w -> 0 <= s < w ->
  wadd w (wshl w 1 (w - s)) (neg_one w) = Z.ones (w - s).
Proof.
  intros w s Hw Hs. rewrite Z.ones_equiv. unfold wadd, neg_one.
  pose proof (pow2_pos w ltac:(lia)) as HM.
  destruct (Z.eq_dec s 0) as [->|Hn].
  - rewrite wshl_big by lia. rewrite Z.sub_0_r. simpl Z.add.
    rewrite Z.mod_small by lia. lia.
  - rewrite wshl_spec by lia. rewrite Z.mul_1_l.
    pose proof (pow2_lt (w - s) w ltac:(lia)) as Hlt.
    pose proof (pow2_pos (w - s) ltac:(lia)) as Hp.
    rewrite (Z.mod_small (2 ^ (w - s))) by lia.
    replace (2 ^ (w - s) + (2 ^ w - 1)) with (2 ^ (w - s) - 1 + 1 * 2 ^ w) by lia.
    rewrite Z_mod_plus_full. rewrite Z.mod_small by lia. lia.
Qed.

(** Decomposition used by [wdiv]: under the third branch, [d = 2^s * d'] with [d'] odd,
    [n = 2^s * n'], [s < w]. *)
Lemma wdiv_decomp : forall w n d, 1 <= w -> 0 < n < 2 ^ w -> 0 <= d < 2 ^ w ->
  tz w d <= tz w n ->
  let s := tz w d in
  0 <= s < w /\ 0 < d /\
  exists d' n', d = 2 ^ s * d' /\ Z.odd d' = true /\ 0 < d' /\ n = 2 ^ s * n' /\ 0 < n'.
Proof.
  intros w n d Hw Hn Hd Hle s.
  pose proof (tz_lt_width w n ltac:(lia) Hn) as Hnw.
  assert (Hdpos : 0 < d).
  { destruct (Z.eq_dec d 0) as [->|]; [|lia]. simpl in Hle. lia. }
  pose proof (tz_nonneg w d ltac:(lia)) as Hs0.
  split; [subst s; lia|]. split; [assumption|].
  destruct (tz_spec w d Hdpos) as [d' [Hd' [Hod Hdp]]].
  destruct (tz_spec w n ltac:(lia)) as [q [Hq [Hoq Hqp]]].
  exists d', (2 ^ (tz w n - s) * q). repeat split; try assumption.
  - rewrite Z.mul_assoc, <- pow2_split by (subst s; lia).
    replace (s + (tz w n - s)) with (tz w n) by lia. exact Hq.
  - pose proof (pow2_pos (tz w n - s) ltac:(subst s; lia)). nia.
Qed.

Lemma div_pow2_exact : forall s x, 0 <= s -> (2 ^ s * x) / 2 ^ s = x.
Proof. intros. rewrite Z.mul_comm. apply Z.div_mul. pose proof (pow2_pos s H). lia. Qed.

(** cancellation: [2^s * a ≡ 2^s * b (mod 2^w)] iff [a ≡ b (mod 2^(w-s))] *)
Lemma mod_pow2_scale : forall w s a, 0 <= s <= w ->
  (2 ^ s * a) mod 2 ^ w = 2 ^ s * (a mod 2 ^ (w - s)).
Proof.
  intros w s a Hs.
  replace w with (s + (w - s)) at 1 by lia. rewrite pow2_split by lia.
  pose proof (pow2_pos s ltac:(lia)). pose proof (pow2_pos (w - s) ltac:(lia)).
  rewrite Z.mul_mod_distr_l by lia. reflexivity.
Qed.

Lemma odd_cancel : forall m d a b, 1 <= m -> Z.odd d = true ->
  (d * a) mod 2 ^ m = (d * b) mod 2 ^ m -> a mod 2 ^ m = b mod 2 ^ m.
Proof.
  intros m d a b Hm Hd H.
  pose proof (pow2_pos m ltac:(lia)) as HM.
  set (i := d ^ (2 ^ (m - 1) - 1)).
  assert (Hi : (i * d) mod 2 ^ m = 1) by (rewrite Z.mul_comm; apply odd_inverse; assumption).
  assert (Ha : a mod 2 ^ m = (i * (d * a)) mod 2 ^ m).
  { rewrite Z.mul_assoc. rewrite <- Z.mul_mod_idemp_l by lia. rewrite Hi. f_equal. lia. }
  assert (Hb : b mod 2 ^ m = (i * (d * b)) mod 2 ^ m).
  { rewrite Z.mul_assoc. rewrite <- Z.mul_mod_idemp_l by lia. rewrite Hi. f_equal. lia. }
  rewrite Ha, Hb. rewrite <- (Z.mul_mod_idemp_r i (d * a)), <- (Z.mul_mod_idemp_r i (d * b)) by lia.
  rewrite H. reflexivity.
Qed.

(** the value computed by the third branch *)
Lemma wdiv_value : forall w n d, 1 <= w -> 0 < n < 2 ^ w -> 0 <= d < 2 ^ w ->
  tz w d <= tz w n ->
  exists x, wdiv w n d = Some x /\ 0 <= x < 2 ^ (w - tz w d) /\ (x * d) mod 2 ^ w = n.
Proof.
  intros w n d Hw Hn Hd Hle.
  destruct (wdiv_decomp w n d Hw Hn Hd Hle) as [Hs [Hdpos [d' [n' [Ed [Hod [Hdp [En Hnp]]]]]]]].
  set (s := tz w d) in *.
  pose proof (pow2_pos w ltac:(lia)) as HM.
  pose proof (pow2_pos s ltac:(lia)) as HS.
  pose proof (pow2_pos (w - s) ltac:(lia)) as HWS.
  unfold wdiv. fold s.
  destruct (n =? 0) eqn:E0; [apply Z.eqb_eq in E0; lia|].
  destruct (tz w n <? s) eqn:E1; [apply Z.ltb_lt in E1; lia|].
  assert (Hd'w : 0 <= 2 ^ (w - s - 1) - 1 < 2 ^ w).
  { pose proof (pow2_pos (w - s - 1) ltac:(lia)). pose proof (pow2_lt (w - s - 1) w ltac:(lia)). lia. }
  assert (Hval : Some (wand (wmul w (wpow w (wshr w d s) (wadd w (wshl w 1 (w - s - 1)) (neg_one w))) (wshr w n s))
                        (wadd w (wshl w 1 (w - s)) (neg_one w)))
               = Some (((d' ^ (2 ^ (w - s - 1) - 1)) mod 2 ^ w * n') mod 2 ^ w mod 2 ^ (w - s))).
  { f_equal. rewrite mask_spec by lia. unfold wand. rewrite Z.land_ones by lia.
    rewrite (wshr_spec w d s) by lia. rewrite (wshr_spec w n s) by lia.
    rewrite Ed at 1. rewrite div_pow2_exact by lia.
    rewrite En at 1. rewrite div_pow2_exact by lia.
    replace (w - s - 1) with ((w - s) - 1) by lia.
    rewrite (inv_exponent w (w - s)) by lia.
    replace (w - s - 1) with ((w - s) - 1) in Hd'w by lia.
    rewrite wpow_spec by lia. reflexivity. }
  rewrite Hval. clear Hval.
  eexists. split; [reflexivity|].
  split; [apply Z.mod_pos_bound; lia|].
  set (i := d' ^ (2 ^ (w - s - 1) - 1)).
  (* x = ((i mod 2^w * n') mod 2^w) mod 2^(w-s) ; reduce to (i*n') mod 2^(w-s) *)
  assert (Hdiv : (2 ^ (w - s) | 2 ^ w)).
  { exists (2 ^ s). replace w with (s + (w - s)) at 1 by lia. rewrite pow2_split by lia. ring. }
  assert (Hx : ((i mod 2 ^ w * n') mod 2 ^ w) mod 2 ^ (w - s) = (i * n') mod 2 ^ (w - s)).
  { rewrite Z.mul_mod_idemp_l by lia.
    destruct Hdiv as [k Hk]. rewrite Hk.
    rewrite Z.mul_comm with (n := k). rewrite Z.rem_mul_r by lia.
    rewrite Z.mul_comm with (n := 2 ^ (w - s)) at 1.
    rewrite Z_mod_plus_full. rewrite Z.mod_mod by lia. reflexivity. }
  rewrite Hx.
  rewrite Ed. rewrite (Z.mul_comm (2 ^ s) d'), Z.mul_assoc, (Z.mul_comm _ (2 ^ s)).
  rewrite mod_pow2_scale by lia.
  rewrite Z.mul_mod_idemp_l by lia.
  replace (i * n' * d') with ((d' * i) * n') by ring.
  rewrite <- Z.mul_mod_idemp_l by lia.
  unfold i. rewrite odd_inverse by (try lia; assumption).
  rewrite Z.mul_1_l.
  rewrite <- mod_pow2_scale by lia. rewrite <- En. apply Z.mod_small. lia.
Qed.

Theorem wdiv_sound : forall w n d x, 1 <= w -> 0 <= n < 2 ^ w -> 0 <= d < 2 ^ w ->
  wdiv w n d = Some x ->
  0 <= x < 2 ^ w /\ (x * d) mod 2 ^ w = n /\ forall y, 0 <= y < x -> (y * d) mod 2 ^ w <> n.
Proof.
  intros w n d x Hw Hn Hd Hdiv.
  pose proof (pow2_pos w ltac:(lia)) as HM.
  destruct (Z.eq_dec n 0) as [->|Hn0].
  - unfold wdiv in Hdiv. simpl in Hdiv. injection Hdiv as <-.
    split; [lia|]. split; [rewrite Z.mul_0_l; apply Z.mod_0_l; lia|]. intros; lia.
  - destruct (Z_lt_le_dec (tz w n) (tz w d)) as [Hlt|Hle].
    + unfold wdiv in Hdiv. destruct (n =? 0) eqn:E0; [apply Z.eqb_eq in E0; lia|].
      destruct (tz w n <? tz w d) eqn:E1; [discriminate|apply Z.ltb_ge in E1; lia].
    + destruct (wdiv_value w n d Hw ltac:(lia) Hd Hle) as [x' [Hx' [Hr Hm]]].
      rewrite Hx' in Hdiv. injection Hdiv as <-.
      destruct (wdiv_decomp w n d Hw ltac:(lia) Hd Hle) as [Hs [Hdpos [d' [n' [Ed [Hod [Hdp [En Hnp]]]]]]]].
      set (s := tz w d) in *.
      pose proof (pow2_le (w - s) w ltac:(lia)).
      split; [lia|]. split; [assumption|].
      intros y Hy Hyn.
      (* y*d ≡ x*d (mod 2^w)  ==>  y ≡ x (mod 2^(w-s)) *)
      assert (Hc : y mod 2 ^ (w - s) = x' mod 2 ^ (w - s)).
      { apply (odd_cancel (w - s) d'); try lia; try assumption.
        assert (E : (2 ^ s * (d' * y)) mod 2 ^ w = (2 ^ s * (d' * x')) mod 2 ^ w).
        { replace (2 ^ s * (d' * y)) with (y * d) by (rewrite Ed; ring).
          replace (2 ^ s * (d' * x')) with (x' * d) by (rewrite Ed; ring). congruence. }
        rewrite !mod_pow2_scale in E by lia.
        pose proof (pow2_pos s ltac:(lia)). nia. }
      rewrite (Z.mod_small y), (Z.mod_small x') in Hc by lia. lia.
Qed.

Theorem wdiv_complete : forall w n d, 1 <= w -> 0 <= n < 2 ^ w -> 0 <= d < 2 ^ w ->
  wdiv w n d = None -> forall x, (x * d) mod 2 ^ w <> n.
Proof.
  intros w n d Hw Hn Hd Hdiv x Heq.
  pose proof (pow2_pos w ltac:(lia)) as HM.
  unfold wdiv in Hdiv.
  destruct (n =? 0) eqn:E0; [discriminate|apply Z.eqb_neq in E0].
  destruct (tz w n <? tz w d) eqn:E1; [apply Z.ltb_lt in E1|discriminate].
  pose proof (tz_nonneg w n ltac:(lia)) as Hn0.
  pose proof (tz_lt_width w n ltac:(lia) ltac:(lia)) as Hnw.
  destruct (tz_spec w n ltac:(lia)) as [q [Hq [Hoq Hqp]]].
  (* 2^(tz n + 1) divides d (or d = 0) and 2^w, hence n *)
  set (k := tz w n + 1).
  assert (Hk : 0 <= k <= w) by (unfold k; lia).
  assert (Hdk : exists d1, d = 2 ^ k * d1).
  { destruct (Z.eq_dec d 0) as [->|Hd0]; [exists 0; ring|].
    destruct (tz_spec w d ltac:(lia)) as [d' [Hd' _]].
    exists (2 ^ (tz w d - k) * d'). rewrite Z.mul_assoc, <- pow2_split by (unfold k; lia).
    replace (k + (tz w d - k)) with (tz w d) by lia. exact Hd'. }
  destruct Hdk as [d1 Hd1].
  assert (Hnk : n mod 2 ^ k = 0).
  { rewrite <- Heq.
    assert (Hdiv2 : exists c, 2 ^ w = 2 ^ k * c).
    { exists (2 ^ (w - k)). rewrite <- pow2_split by lia. f_equal. lia. }
    destruct Hdiv2 as [c Hc]. pose proof (pow2_pos k ltac:(lia)).
    assert (0 < c) by nia.
    rewrite Hc. rewrite Z.rem_mul_r by lia.
    rewrite Z.mul_comm with (n := 2 ^ k) at 1. rewrite Z_mod_plus_full.
    rewrite Z.mod_mod by lia. rewrite Hd1.
    replace (x * (2 ^ k * d1)) with ((x * d1) * 2 ^ k) by ring. apply Z.mod_mul. lia. }
  (* but n = 2^(tz n) * odd *)
  rewrite Hq in Hnk. unfold k in Hnk.
  rewrite pow2_split in Hnk by lia. change (2 ^ 1) with 2 in Hnk.
  pose proof (pow2_pos (tz w n) Hn0).
  rewrite Z.mul_mod_distr_l in Hnk by lia.
  rewrite Zmod_odd, Hoq in Hnk. lia.
Qed.

(** [BITS - shift - 1] never underflows where it is evaluated *)
Theorem wdiv_no_underflow : forall w n d, 1 <= w -> 0 <= n < 2 ^ w -> 0 <= d < 2 ^ w ->
  wdiv_reaches_sub w n d = true -> 0 <= w - tz w d - 1 /\ 0 <= w - tz w d.
Proof.
  intros w n d Hw Hn Hd H. unfold wdiv_reaches_sub in H.
  apply andb_true_iff in H. destruct H as [H0 H1].
  apply negb_true_iff in H0, H1. apply Z.eqb_neq in H0. apply Z.ltb_ge in H1.
  pose proof (tz_lt_width w n ltac:(lia) ltac:(lia)). lia.
Qed.

(** [wdiv] returns [None] exactly when no solution exists, and [Some] of the least one otherwise *)
Theorem wdiv_spec : forall w n d, 1 <= w -> 0 <= n < 2 ^ w -> 0 <= d < 2 ^ w ->
  match wdiv w n d with
  | Some x => 0 <= x < 2 ^ w /\ (x * d) mod 2 ^ w = n /\ forall y, 0 <= y < x -> (y * d) mod 2 ^ w <> n
  | None => forall x, (x * d) mod 2 ^ w <> n
  end.
Proof.
  intros w n d Hw Hn Hd. destruct (wdiv w n d) as [x|] eqn:E.
  - apply wdiv_sound; assumption.
  - apply wdiv_complete; assumption.
Qed.

(** ** Conversions *)

Theorem from_u64_into_u64 : forall w c, 1 <= w -> 0 <= c < 2 ^ w -> from_u64 w (into_u64 w c) = c.
Proof. intros. unfold from_u64, into_u64. apply Z.mod_small. assumption. Qed.

Theorem from_u64_range : forall w v, 1 <= w -> 0 <= from_u64 w v < 2 ^ w.
Proof. intros. unfold from_u64. apply Z.mod_pos_bound. apply pow2_pos. lia. Qed.

Theorem into_i64_sign : forall w c, 1 <= w -> 0 <= c < 2 ^ w ->
  - 2 ^ (w - 1) <= into_i64 w c < 2 ^ (w - 1) /\ (into_i64 w c) mod 2 ^ w = c.
Proof.
  intros w c Hw Hc. unfold into_i64.
  pose proof (pow2_pos w ltac:(lia)) as HM. pose proof (pow2_pos (w - 1) ltac:(lia)) as HP.
  assert (E : 2 ^ w = 2 * 2 ^ (w - 1)).
  { replace w with (Z.succ (w - 1)) at 1 by lia. rewrite Z.pow_succ_r by lia. reflexivity. }
  destruct (c <? 2 ^ (w - 1)) eqn:Ec; [apply Z.ltb_lt in Ec|apply Z.ltb_ge in Ec].
  - split; [lia|apply Z.mod_small; lia].
  - split; [lia|]. replace (c - 2 ^ w) with (c + (-1) * 2 ^ w) by lia.
    rewrite Z_mod_plus_full. apply Z.mod_small. lia.
Qed.

Theorem from_i16_try_into_i16 : forall w v, 16 <= w <= 64 -> -32768 <= v <= 32767 ->
  try_into_i16 w (from_i16 w v) = Some v.
Proof.
  intros w v Hw Hv. unfold try_into_i16, from_i16, from_u64.
  pose proof (pow2_pos w ltac:(lia)) as HM.
  assert (Hdiv : exists c, 2 ^ 64 = 2 ^ w * c /\ 0 < c).
  { exists (2 ^ (64 - w)). split; [rewrite <- pow2_split by lia; f_equal; lia|apply pow2_pos; lia]. }
  destruct Hdiv as [c [Hc Hcp]].
  assert (E : (v mod 2 ^ 64) mod 2 ^ w = v mod 2 ^ w).
  { rewrite Hc. rewrite Z.rem_mul_r by lia. rewrite Z.mul_comm with (n := 2 ^ w) at 1.
    rewrite Z_mod_plus_full. apply Z.mod_mod. lia. }
  rewrite E.
  assert (H15 : 2 ^ 15 <= 2 ^ (w - 1)) by (apply pow2_le; lia).
  change (2 ^ 15) with 32768 in H15.
  assert (E2 : 2 ^ w = 2 * 2 ^ (w - 1)).
  { replace w with (Z.succ (w - 1)) at 1 by lia. rewrite Z.pow_succ_r by lia. reflexivity. }
  unfold into_i64.
  destruct (Z_lt_le_dec v 0) as [Hneg|Hpos].
  - assert (Ev : v mod 2 ^ w = v + 2 ^ w).
    { replace v with (v + 2 ^ w + (-1) * 2 ^ w) at 1 by lia. rewrite Z_mod_plus_full.
      apply Z.mod_small. lia. }
    rewrite Ev. destruct (v + 2 ^ w <? 2 ^ (w - 1)) eqn:Ec; [apply Z.ltb_lt in Ec; lia|].
    replace (v + 2 ^ w - 2 ^ w) with v by lia.
    destruct (-32768 <=? v) eqn:A; [|apply Z.leb_gt in A; lia].
    destruct (v <=? 32767) eqn:B; [|apply Z.leb_gt in B; lia]. reflexivity.
  - rewrite (Z.mod_small v) by lia.
    destruct (v <? 2 ^ (w - 1)) eqn:Ec; [|apply Z.ltb_ge in Ec; lia].
    destruct (-32768 <=? v) eqn:A; [|apply Z.leb_gt in A; lia].
    destruct (v <=? 32767) eqn:B; [|apply Z.leb_gt in B; lia]. reflexivity.
Qed.

(** at 8 bits [from_i16] truncates; [try_into_i16] always succeeds with the sign-extended byte *)
Theorem try_into_i16_w8 : forall c, 0 <= c < 256 ->
  try_into_i16 8 c = Some (if c <? 128 then c else c - 256).
Proof.
  intros c Hc. unfold try_into_i16, into_i64. change (2 ^ (8 - 1)) with 128. change (2 ^ 8) with 256.
  destruct (c <? 128) eqn:E; [apply Z.ltb_lt in E|apply Z.ltb_ge in E].
  - destruct (-32768 <=? c) eqn:A; [|apply Z.leb_gt in A; lia].
    destruct (c <=? 32767) eqn:B; [|apply Z.leb_gt in B; lia]. reflexivity.
  - destruct (-32768 <=? c - 256) eqn:A; [|apply Z.leb_gt in A; lia].
    destruct (c - 256 <=? 32767) eqn:B; [|apply Z.leb_gt in B; lia]. reflexivity.
Qed.

Theorem into_u8_low8 : forall w c, 8 <= w -> 0 <= c < 2 ^ w ->
  into_u8 w c = c mod 256 /\ (forall b, 0 <= b < 256 -> into_u8 w (from_u8 w b) = b).
Proof.
  intros w c Hw Hc. unfold into_u8, from_u8, from_u64, into_u64. split; [reflexivity|].
  intros b Hb. assert (256 <= 2 ^ w) by (change 256 with (2 ^ 8); apply pow2_le; lia).
  rewrite (Z.mod_small b (2 ^ w)) by lia. apply Z.mod_small. lia.
Qed.

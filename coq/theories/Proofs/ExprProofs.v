(** * ExprProofs.v — the symbolic expression algebra agrees with concrete arithmetic modulo 2^w
    (property C15). [den] is the value of an expression in Z; [eval] (the model of
    [Expr::evaluate]) is congruent to it, and every combinator is a homomorphism up to [eqm]. *)

From Coq Require Import ZArith List Bool Lia Zdiv Permutation Morphisms Setoid.
From HPBF Require Import Cell Expr CellProofs.
Import ListNotations.
Open Scope Z_scope.
#[local] Existing Instances eqm_setoid Zplus_eqm Zminus_eqm Zmult_eqm Zopp_eqm.
Local Arguments Z.mul : simpl never.
Local Arguments Z.add : simpl never.
Local Arguments Z.opp : simpl never.
Local Arguments Z.sub : simpl never.
Local Arguments Z.pow : simpl never.

Section Hom.
Variable w : Z.
Hypothesis Hw : 0 <= w.
Let M := 2 ^ w.
Notation "a == b" := (eqm M a b) (at level 70).
Variable rho : Z -> Z.

Lemma eqm_def : forall a b, (a == b) <-> a mod M = b mod M.
Proof. intros. unfold eqm. tauto. Qed.

Lemma M_pos : 0 < M. Proof. subst M. apply Z.pow_pos_nonneg; [reflexivity|exact Hw]. Qed.

Definition mon (vs : list Z) : Z := fold_right (fun v acc => rho v * acc) 1 vs.
Definition dpart (p : part) : Z := fst p * mon (snd p).
Definition den (e : expr) : Z := fold_right (fun p acc => dpart p + acc) 0 e.

Lemma mon_app : forall a b, mon (a ++ b) = mon a * mon b.
Proof. induction a as [|x a IH]; intros b; simpl; [ring|rewrite IH; ring]. Qed.

Lemma den_app : forall a b, den (a ++ b) = den a + den b.
Proof. induction a as [|x a IH]; intros b; simpl; [ring|rewrite IH; ring]. Qed.

Lemma mon_perm : forall a b, Permutation a b -> mon a = mon b.
Proof. intros a b H. induction H; simpl; try ring; try congruence. Qed.

Lemma den_perm : forall a b, Permutation a b -> den a = den b.
Proof. intros a b H. induction H; simpl; try ring; try congruence. Qed.

Lemma wadd_eqm : forall a b, wadd w a b == a + b.
Proof. intros. unfold wadd. apply eqm_def; apply Z.mod_mod; pose proof M_pos; fold M; lia. Qed.
Lemma wmul_eqm : forall a b, wmul w a b == a * b.
Proof. intros. unfold wmul. apply eqm_def; apply Z.mod_mod; pose proof M_pos; fold M; lia. Qed.
Lemma wneg_eqm : forall a, wneg w a == - a.
Proof. intros. unfold wneg. apply eqm_def; apply Z.mod_mod; pose proof M_pos; fold M; lia. Qed.

Lemma eqm_zero_mul : forall a b, a == 0 -> a * b == 0.
Proof. intros a b H. rewrite H. reflexivity. Qed.

Lemma eqb0_eqm : forall a, (a =? 0) = true -> a == 0.
Proof. intros a H. apply Z.eqb_eq in H. subst. reflexivity. Qed.

(** ** evaluation *)
Lemma fold_mul_den : forall vs acc,
  fold_left (fun pv v => wmul w pv (rho v)) vs acc == acc * mon vs.
Proof.
  induction vs as [|v vs IH]; intros acc; simpl.
  - replace (acc * 1) with acc by ring. reflexivity.
  - rewrite IH. rewrite wmul_eqm. replace (acc * rho v * mon vs) with (acc * (rho v * mon vs)) by ring. reflexivity.
Qed.

Lemma eval_part_den : forall p, eval_part w rho p == dpart p.
Proof. intros p. unfold eval_part, dpart. apply fold_mul_den. Qed.

Lemma fold_add_den : forall e acc,
  fold_left (fun val p => wadd w val (eval_part w rho p)) e acc == acc + den e.
Proof.
  induction e as [|p e IH]; intros acc; simpl.
  - replace (acc + 0) with acc by ring. reflexivity.
  - rewrite IH. rewrite wadd_eqm, eval_part_den. replace (acc + dpart p + den e) with (acc + (dpart p + den e)) by ring. reflexivity.
Qed.

Theorem eval_den : forall e, eval w e rho == den e.
Proof. intros e. unfold eval. rewrite fold_add_den. reflexivity. Qed.

(** ** constructors *)
Lemma den_val : forall c, den (e_val c) = c.
Proof. intros c. unfold e_val. destruct (c =? 0) eqn:E; simpl; [apply Z.eqb_eq in E; lia|unfold dpart; simpl; ring]. Qed.

Lemma den_var : forall v, den (e_var v) = rho v.
Proof. intros v. unfold e_var, den, dpart. simpl. ring. Qed.

(** ** add *)
Lemma lcmp_eq : forall a b, lcmp a b = Eq -> a = b.
Proof.
  induction a as [|x a IH]; intros b H; destruct b as [|y b]; simpl in H; try discriminate; [reflexivity|].
  destruct (x ?= y) eqn:E; try discriminate. apply Z.compare_eq in E. subst. f_equal. apply IH. exact H.
Qed.

Lemma den_cons : forall p e, den (p :: e) = dpart p + den e.
Proof. reflexivity. Qed.
Lemma den_nil : den [] = 0.
Proof. reflexivity. Qed.

Lemma e_add_cons : forall pa a' pb b',
  e_add w (pa :: a') (pb :: b') =
  match lcmp (snd pa) (snd pb) with
  | Lt => pa :: e_add w a' (pb :: b')
  | Gt => pb :: e_add w (pa :: a') b'
  | Eq => let c := wadd w (fst pa) (fst pb) in
          if c =? 0 then e_add w a' b' else (c, snd pa) :: e_add w a' b'
  end.
Proof. reflexivity. Qed.

Lemma e_add_nil_r : forall a, e_add w a [] = a.
Proof. destruct a; reflexivity. Qed.

Theorem den_add : forall a b, den (e_add w a b) == den a + den b.
Proof.
  induction a as [|pa a' IHa]; intros b.
  - cbn [e_add]. rewrite den_nil. rewrite Z.add_0_l. reflexivity.
  - induction b as [|pb b' IHb].
    + rewrite e_add_nil_r, den_nil, Z.add_0_r. reflexivity.
    + rewrite e_add_cons. destruct (lcmp (snd pa) (snd pb)) eqn:C.
      * apply lcmp_eq in C. cbv zeta.
        assert (S : dpart pa + dpart pb == wadd w (fst pa) (fst pb) * mon (snd pa)).
        { rewrite wadd_eqm. unfold dpart. rewrite <- C. ring_simplify. reflexivity. }
        destruct (wadd w (fst pa) (fst pb) =? 0) eqn:Z0.
        -- rewrite IHa, !den_cons.
           replace (dpart pa + den a' + (dpart pb + den b')) with ((dpart pa + dpart pb) + (den a' + den b')) by ring.
           rewrite S. apply Z.eqb_eq in Z0. rewrite Z0. rewrite Z.mul_0_l, Z.add_0_l. reflexivity.
        -- rewrite !den_cons, IHa.
           replace (dpart pa + den a' + (dpart pb + den b')) with ((dpart pa + dpart pb) + (den a' + den b')) by ring.
           rewrite S. unfold dpart at 1. cbn [fst snd]. reflexivity.
      * rewrite !den_cons, IHa, den_cons. ring_simplify. reflexivity.
      * rewrite !den_cons, IHb, den_cons. ring_simplify. reflexivity.
Qed.

(** ** mul *)
Lemma den_filter_nonzero : forall e, den (filter nonzero e) = den e.
Proof.
  induction e as [|p e IH]; simpl; [reflexivity|]. unfold nonzero at 1.
  destruct (fst p =? 0) eqn:E; simpl; rewrite IH; [|reflexivity].
  apply Z.eqb_eq in E. unfold dpart. rewrite E. ring.
Qed.

Lemma den_scale_raw : forall ps q,
  den (map (fun p => (wmul w (fst p) (fst q), snd p ++ snd q)) ps) == den ps * dpart q.
Proof.
  induction ps as [|p ps IH]; intros q; simpl; [reflexivity|].
  rewrite IH. unfold dpart at 1. cbn [fst snd]. rewrite mon_app, wmul_eqm. unfold dpart. ring_simplify. reflexivity.
Qed.

Lemma den_scale : forall ps q, den (scale_parts w ps q) == den ps * dpart q.
Proof. intros. unfold scale_parts. rewrite den_filter_nonzero. apply den_scale_raw. Qed.

Definition amap_den (m : amap) : Z := fold_right (fun kc acc => snd kc * mon (fst kc) + acc) 0 m.

Lemma list_eqb_eq : forall a b, list_eqb a b = true -> a = b.
Proof.
  induction a as [|x a IH]; intros b H; destruct b as [|y b]; simpl in H; try discriminate; [reflexivity|].
  apply andb_true_iff in H. destruct H as [H1 H2]. apply Z.eqb_eq in H1. subst. f_equal. apply IH. exact H2.
Qed.

Lemma acc_add_den : forall k c m, amap_den (acc_add w k c m) == amap_den m + c * mon k.
Proof.
  intros k c m. induction m as [|[k' c'] m IH]; simpl.
  - rewrite wadd_eqm. ring_simplify. reflexivity.
  - destruct (list_eqb k k') eqn:E; simpl.
    + apply list_eqb_eq in E. subst. rewrite wadd_eqm. ring_simplify. reflexivity.
    + rewrite IH. ring_simplify. reflexivity.
Qed.

Lemma insert_z_perm : forall x l, Permutation (insert_z x l) (x :: l).
Proof.
  intros x l. induction l as [|y t IH]; simpl; [reflexivity|].
  destruct (x <=? y); [reflexivity|]. rewrite IH. apply perm_swap.
Qed.
Lemma sort_z_perm : forall l, Permutation (sort_z l) l.
Proof. induction l as [|x t IH]; simpl; [reflexivity|]. rewrite insert_z_perm. apply perm_skip, IH. Qed.

Lemma insert_part_perm : forall p l, Permutation (insert_part p l) (p :: l).
Proof.
  intros p l. induction l as [|q t IH]; simpl; [reflexivity|].
  destruct (lcmp (snd p) (snd q)); try reflexivity. rewrite IH. apply perm_swap.
Qed.
Lemma sort_parts_perm : forall l, Permutation (sort_parts l) l.
Proof. induction l as [|x t IH]; simpl; [reflexivity|]. rewrite insert_part_perm. apply perm_skip, IH. Qed.

Lemma den_map_swap : forall m, den (map (fun kc : list Z * Z => (snd kc, fst kc)) m) = amap_den m.
Proof. induction m as [|[k c] m IH]; simpl; [reflexivity|]. rewrite IH. unfold dpart. reflexivity. Qed.

Lemma amap_parts_den : forall m, den (amap_parts m) = amap_den m.
Proof.
  intros m. unfold amap_parts. rewrite (den_perm _ _ (sort_parts_perm _)).
  rewrite den_filter_nonzero. apply den_map_swap.
Qed.

Lemma amap_list_den : forall m, den (amap_list m) = amap_den m.
Proof. intros m. unfold amap_list. rewrite den_filter_nonzero. apply den_map_swap. Qed.

Lemma inner_fold_den : forall (pa : part) (b : expr) (m : amap),
  amap_den (fold_left (fun m pb => acc_add w (sort_z (snd pa ++ snd pb)) (wmul w (fst pa) (fst pb)) m) b m)
  == amap_den m + dpart pa * den b.
Proof.
  intros pa b. induction b as [|pb b IH]; intros m; simpl.
  - ring_simplify. reflexivity.
  - rewrite IH. rewrite acc_add_den. rewrite (mon_perm _ _ (sort_z_perm _)), mon_app, wmul_eqm.
    unfold dpart. ring_simplify. reflexivity.
Qed.

Lemma outer_fold_den : forall (a b : expr) (m : amap),
  amap_den (fold_left (fun m pa =>
       fold_left (fun m pb => acc_add w (sort_z (snd pa ++ snd pb)) (wmul w (fst pa) (fst pb)) m) b m) a m)
  == amap_den m + den a * den b.
Proof.
  induction a as [|pa a IH]; intros b m; simpl.
  - ring_simplify. reflexivity.
  - rewrite IH. rewrite inner_fold_den. ring_simplify. reflexivity.
Qed.

Lemma den_mul_general : forall a b, den (mul_general w a b) == den a * den b.
Proof. intros. unfold mul_general. rewrite amap_parts_den. rewrite outer_fold_den. simpl. reflexivity. Qed.

Theorem den_mul : forall a b, den (e_mul w a b) == den a * den b.
Proof.
  intros a b. unfold e_mul.
  destruct a as [|q [|q2 a]]; destruct b as [|r [|r2 b]];
    try (rewrite den_scale); try (apply den_mul_general);
    rewrite ?den_cons, ?den_nil; ring_simplify; try reflexivity.
Qed.

(** ** neg, half *)
Theorem den_neg : forall a, den (e_neg w a) == - den a.
Proof.
  induction a as [|p a IH]; simpl; [reflexivity|].
  rewrite IH. unfold dpart at 1. cbn [fst snd]. rewrite wneg_eqm. unfold dpart. ring_simplify. reflexivity.
Qed.

Lemma half_coef : forall c, is_odd c = false -> 2 * wshr w c 1 == c.
Proof.
  intros c H. rewrite is_odd_spec in H. unfold wshr.
  destruct (1 <? w) eqn:E.
  - rewrite Z.shiftr_div_pow2 by lia. change (2 ^ 1) with 2.
    rewrite <- (even_mod2 c H). reflexivity.
  - apply Z.ltb_ge in E. apply eqm_def. rewrite Z.mul_0_r.
    (* M is 1 or 2 and c is even *)
    assert (HM : M = 1 \/ M = 2).
    { unfold M. assert (w = 0 \/ w = 1) as [->| ->] by lia; [left|right]; reflexivity. }
    rewrite (even_mod2 c H). destruct HM as [-> | ->].
    + rewrite !Z.mod_1_r. reflexivity.
    + rewrite Z.mul_comm, Z.mod_mul by lia. reflexivity.
Qed.

Theorem den_half : forall a h, e_half w a = Some h -> 2 * den h == den a.
Proof.
  intros a h H. unfold e_half in H.
  destruct (forallb (fun p => negb (is_odd (fst p))) a) eqn:F; [|discriminate]. injection H as <-.
  induction a as [|p a IH]; simpl; [reflexivity|].
  simpl in F. apply andb_true_iff in F. destruct F as [F1 F2]. apply negb_true_iff in F1.
  specialize (IH F2). unfold dpart at 1. cbn [fst snd].
  replace (2 * (wshr w (fst p) 1 * mon (snd p) + den (map (fun p0 => (wshr w (fst p0) 1, snd p0)) a)))
    with ((2 * wshr w (fst p) 1) * mon (snd p) + 2 * den (map (fun p0 => (wshr w (fst p0) 1, snd p0)) a)) by ring.
  rewrite IH, (half_coef _ F1). unfold dpart. reflexivity.
Qed.

(** ** decompositions that hold for every expression *)
Theorem den_constant : forall a c, e_constant a = Some c -> den a = c.
Proof.
  intros a c H. destruct a as [|[c0 vs] a]; simpl in H; [injection H as <-; reflexivity|].
  destruct vs; [|discriminate]. destruct a; [|discriminate]. injection H as <-.
  rewrite den_cons, den_nil. unfold dpart. simpl. ring.
Qed.

Theorem den_identity : forall a x, e_identity a = Some x -> den a = rho x.
Proof.
  intros a x H. destruct a as [|[c vs] a]; simpl in H; [discriminate|].
  destruct vs as [|v vs]; [discriminate|]. destruct vs; [|discriminate]. destruct a; [|discriminate].
  destruct (c =? 1) eqn:E; [|discriminate]. injection H as <-. apply Z.eqb_eq in E. subst.
  rewrite den_cons, den_nil. unfold dpart. simpl. ring.
Qed.

Theorem den_const_inc_of : forall a v c, e_const_inc_of a v = Some c -> den a = rho v + c.
Proof.
  intros a v c H. unfold e_const_inc_of in H.
  destruct a as [|[c0 vs0] a]; [discriminate|].
  destruct vs0 as [|x0 vs0].
  - destruct a as [|[c1 vs1] a]; [discriminate|]. destruct vs1 as [|x1 vs1]; [discriminate|].
    destruct vs1; [|discriminate]. destruct a; [|discriminate].
    destruct ((c1 =? 1) && (x1 =? v)) eqn:E; [|discriminate]. injection H as <-.
    apply andb_true_iff in E. destruct E as [E1 E2]. apply Z.eqb_eq in E1, E2. subst.
    rewrite !den_cons, den_nil. unfold dpart. simpl. ring.
  - destruct vs0; [|discriminate]. destruct a; [|discriminate].
    destruct ((c0 =? 1) && (x0 =? v)) eqn:E; [|discriminate]. injection H as <-.
    apply andb_true_iff in E. destruct E as [E1 E2]. apply Z.eqb_eq in E1, E2. subst.
    rewrite den_cons, den_nil. unfold dpart. simpl. ring.
Qed.

Lemma mon_remove_one : forall v vs, count v vs = 1%nat -> mon vs = rho v * mon (remove_var v vs).
Proof.
  intros v. induction vs as [|x vs IH]; intros H; simpl in H; [discriminate|].
  unfold remove_var. cbn [filter]. destruct (x =? v) eqn:E.
  - apply Z.eqb_eq in E. subst. injection H as H. simpl.
    assert (Z0 : forall l, count v l = 0%nat -> filter (fun x => negb (x =? v)) l = l).
    { induction l as [|y l IHl]; intros Hc; simpl in *; [reflexivity|].
      destruct (y =? v); [discriminate|]. simpl. f_equal. apply IHl. exact Hc. }
    rewrite (Z0 vs H). reflexivity.
  - simpl. fold (remove_var v vs). rewrite (IH H). ring.
Qed.

Lemma den_fold_add : forall (g : part -> part) l acc,
  den (fold_left (fun acc p => e_add w acc [g p]) l acc) == den acc + den (map g l).
Proof.
  intros g. induction l as [|p l IH]; intros acc; cbn [fold_left map].
  - rewrite den_nil, Z.add_0_r. reflexivity.
  - rewrite IH, den_add, !den_cons, den_nil. ring_simplify. reflexivity.
Qed.

Theorem den_prod_of : forall a v r, e_prod_of w a v = Some r -> den a == rho v * den r.
Proof.
  intros a v r H. unfold e_prod_of in H.
  destruct (forallb (fun p => (count v (snd p) =? 1)%nat) a) eqn:F; [|discriminate]. injection H as <-.
  rewrite (den_fold_add (fun p => (fst p, remove_var v (snd p)))), den_nil, Z.add_0_l.
  assert (E : den a = rho v * den (map (fun p => (fst p, remove_var v (snd p))) a)).
  { revert F. induction a as [|p a IH]; intros F; [simpl; ring|].
    simpl in F. apply andb_true_iff in F. destruct F as [F1 F2]. apply Nat.eqb_eq in F1.
    cbn [map]. rewrite !den_cons, (IH F2). unfold dpart. cbn [fst snd]. rewrite (mon_remove_one v _ F1). ring. }
  rewrite E. reflexivity.
Qed.

(** ** decompositions that rely on the shape of reachable expressions:
    [singles_unique v a]: at most one part of [a] is the bare variable [v];
    [const_first a]: a constant part, if any, is the first part *)
Definition singles_unique (v : Z) (a : expr) : Prop := (length (filter (is_single v) a) <= 1)%nat.
Definition const_first (a : expr) : Prop := forall p, In p (tl a) -> snd p <> [].

Lemma den_partition : forall (f : part -> bool) a, den a = den (filter f a) + den (filter (fun p => negb (f p)) a).
Proof.
  intros f a. induction a as [|p a IH]; [reflexivity|]. cbn [filter]. destruct (f p); simpl; rewrite ?den_cons, IH; ring.
Qed.

Lemma is_single_spec : forall v p, is_single v p = true -> snd p = [v].
Proof.
  intros v [c vs] H. unfold is_single in H. simpl in *. destruct vs as [|x vs]; [discriminate|].
  destruct vs; [|discriminate]. apply Z.eqb_eq in H. subst. reflexivity.
Qed.

Theorem den_prod_inc_of : forall a v r m, singles_unique v a -> e_prod_inc_of a v = Some (r, m) ->
  den a = m * rho v + den r.
Proof.
  intros a v r m U H. unfold e_prod_inc_of in H.
  match type of H with (if ?c then _ else _) = _ => destruct c end; [|discriminate]. injection H as <- <-.
  rewrite (den_partition (is_single v) a). f_equal.
  unfold singles_unique in U.
  assert (G : forall a0 m0, (length (filter (is_single v) a0) <= 1)%nat ->
            den (filter (is_single v) a0) = (fold_left (fun m p => if is_single v p then fst p else m) a0 m0
                                             - (if (length (filter (is_single v) a0) =? 0)%nat then m0 else 0)) * rho v).
  { induction a0 as [|p a0 IHa]; intros m0 L; simpl.
    - ring.
    - destruct (is_single v p) eqn:S; simpl in *; rewrite ?S in L; simpl in L.
      + assert (L0 : length (filter (is_single v) a0) = 0%nat) by lia.
        assert (E : filter (is_single v) a0 = []) by (destruct (filter (is_single v) a0); [reflexivity|discriminate]).
        rewrite E. change (den []) with 0.
        assert (K : forall l x, filter (is_single v) l = [] -> fold_left (fun m p0 => if is_single v p0 then fst p0 else m) l x = x).
        { induction l as [|q l IHl]; intros x Hq; simpl; [reflexivity|]. simpl in Hq.
          destruct (is_single v q); [discriminate|]. apply IHl. exact Hq. }
        rewrite (K _ _ E). unfold dpart. rewrite (is_single_spec _ _ S). simpl. ring.
      + apply IHa. exact L. }
  rewrite (G a 0 U). destruct (length (filter (is_single v) a) =? 0)%nat; ring.
Qed.

Theorem den_inc_of : forall a v r, singles_unique v a -> e_inc_of a v = Some r -> den a = rho v + den r.
Proof.
  intros a v r U H. unfold e_inc_of in H.
  destruct (existsb (fun p => (fst p =? 1) && is_single v p) a) eqn:Ex; [|discriminate].
  match type of H with (if ?c then _ else _) = _ => destruct c end; [|discriminate]. simpl in H. injection H as <-.
  rewrite (den_partition (is_single v) a). f_equal.
  apply existsb_exists in Ex. destruct Ex as [p [Hin Hp]]. apply andb_true_iff in Hp. destruct Hp as [H1 HS].
  apply Z.eqb_eq in H1.
  assert (Hf : In p (filter (is_single v) a)) by (apply filter_In; split; assumption).
  unfold singles_unique in U.
  destruct (filter (is_single v) a) as [|q l] eqn:E; [contradiction|].
  destruct l; [|simpl in U; lia]. destruct Hf as [->|[]].
  rewrite den_cons, den_nil. unfold dpart. rewrite H1, (is_single_spec _ _ HS). simpl. ring.
Qed.

Theorem den_constant_part : forall a, const_first a -> (forall v, rho v = 0) -> den a = e_constant_part a.
Proof.
  intros a CF Z0.
  assert (V : forall l, (forall p, In p l -> snd p <> []) -> den l = 0).
  { induction l as [|p l IH]; intros Hl; [reflexivity|]. rewrite den_cons, IH by (intros q Hq; apply Hl; right; exact Hq).
    unfold dpart. destruct (snd p) as [|x vs] eqn:E; [exfalso; apply (Hl p); [left; reflexivity|exact E]|].
    simpl. rewrite Z0. ring. }
  destruct a as [|[c vs] a]; [reflexivity|]. rewrite den_cons. unfold const_first in CF. simpl in CF.
  rewrite (V a CF). unfold dpart. simpl. destruct vs as [|x vs]; simpl; [ring|rewrite Z0; ring].
Qed.

(** ** normalisation *)
Lemma sq_parity : forall x, eqm 2 (x * x) x.
Proof.
  intros x. unfold eqm. rewrite Z.mul_mod by lia.
  pose proof (Z.mod_pos_bound x 2 ltac:(lia)) as B.
  assert (C : x mod 2 = 0 \/ x mod 2 = 1) by lia. destruct C as [-> | ->]; reflexivity.
Qed.

Lemma mon_cons : forall v vs, mon (v :: vs) = rho v * mon vs.
Proof. reflexivity. Qed.

Lemma mon_dedup_parity : forall vs, eqm 2 (mon (dedup vs)) (mon vs).
Proof.
  induction vs as [|x t IH]; [reflexivity|].
  destruct t as [|y t']; [reflexivity|].
  change (dedup (x :: y :: t')) with (if x =? y then dedup (y :: t') else x :: dedup (y :: t')).
  destruct (x =? y) eqn:E.
  - apply Z.eqb_eq in E. subst y. rewrite IH. rewrite !mon_cons.
    replace (rho x * (rho x * mon t')) with ((rho x * rho x) * mon t') by ring. rewrite (sq_parity (rho x)). reflexivity.
  - rewrite (mon_cons x (dedup (y :: t'))), IH. reflexivity.
Qed.

Lemma hm_double : half_mod w * 2 == 0.
Proof.
  unfold half_mod, wshl. destruct (w - 1 <? w) eqn:E; [|apply Z.ltb_ge in E; lia].
  apply eqm_def. destruct (Z.eq_dec w 0) as [E0|Hn].
  - assert (M1 : M = 1) by (subst M; rewrite E0; reflexivity). rewrite M1, !Z.mod_1_r. reflexivity.
  - rewrite Z.shiftl_mul_pow2 by lia. rewrite Z.mul_1_l. fold M.
    assert (EM : M = 2 ^ (w - 1) * 2).
    { subst M. replace w with (Z.succ (w - 1)) at 1 by lia. rewrite Z.pow_succ_r by lia. ring. }
    assert (P : 0 < 2 ^ (w - 1)) by (apply Z.pow_pos_nonneg; lia).
    rewrite (Z.mod_small (2 ^ (w - 1)) M) by lia.
    rewrite <- EM. rewrite Z.mod_same, Z.mod_0_l by lia. reflexivity.
Qed.

Lemma hm_parity : forall a b, eqm 2 a b -> half_mod w * a == half_mod w * b.
Proof.
  intros a b H. unfold eqm in H.
  pose proof (Z.div_mod a 2 ltac:(lia)) as Da. pose proof (Z.div_mod b 2 ltac:(lia)) as Db.
  assert (E : a = b + 2 * (a / 2 - b / 2)) by lia.
  rewrite E. replace (half_mod w * (b + 2 * (a / 2 - b / 2)))
    with (half_mod w * b + (half_mod w * 2) * (a / 2 - b / 2)) by ring.
  rewrite hm_double. ring_simplify. reflexivity.
Qed.

Lemma den_map_dedup : forall a,
  den (map (fun p => if fst p =? half_mod w then (fst p, dedup (snd p)) else p) a) == den a.
Proof.
  induction a as [|p a IH]; [reflexivity|]. cbn [map]. rewrite !den_cons, IH.
  destruct (fst p =? half_mod w) eqn:E; [|reflexivity].
  apply Z.eqb_eq in E. unfold dpart. cbn [fst snd]. rewrite E.
  rewrite (hm_parity _ _ (mon_dedup_parity (snd p))). reflexivity.
Qed.

Lemma chunk_sum_den : forall l head,
  den (chunk_sum w head l) == (match head with Some h => dpart h | None => 0 end) + den l.
Proof.
  induction l as [|p t IH]; intros head.
  - destruct head; simpl; rewrite ?den_cons, ?den_nil; ring_simplify; reflexivity.
  - destruct head as [h|]; cbn [chunk_sum].
    + destruct (list_eqb (snd h) (snd p)) eqn:E.
      * apply list_eqb_eq in E. rewrite IH. rewrite den_cons. unfold dpart. cbn [fst snd]. rewrite wadd_eqm, E.
        ring_simplify. reflexivity.
      * rewrite den_cons, IH. rewrite den_cons. ring_simplify. reflexivity.
    + rewrite IH. rewrite den_cons. ring_simplify. reflexivity.
Qed.

Lemma norm_phase1_den : forall a, den (norm_phase1 w a) == den a.
Proof.
  intros a. unfold norm_phase1.
  match goal with |- context [if ?c then _ else _] => destruct c end; [|reflexivity].
  match goal with |- context [if ?c then _ else _] => destruct c end.
  - rewrite den_filter_nonzero, chunk_sum_den. rewrite (den_perm _ _ (sort_parts_perm _)).
    rewrite den_map_dedup. ring_simplify. reflexivity.
  - apply den_map_dedup.
Qed.

(** phase 2: coefficient updates on an indexed list *)
Lemma upd_coef_vars : forall l i c, map snd (upd_coef i c l) = map snd l.
Proof. induction l as [|p l IH]; intros [|i] c; simpl; try reflexivity. rewrite IH. reflexivity. Qed.

Lemma upd_coef_length : forall l i c, length (upd_coef i c l) = length l.
Proof. induction l as [|p l IH]; intros [|i] c; simpl; try reflexivity. rewrite IH. reflexivity. Qed.

Lemma vars_at_map : forall l l' i, map snd l = map snd l' -> vars_at l i = vars_at l' i.
Proof.
  induction l as [|p l IH]; intros l' i H; destruct l' as [|p' l']; simpl in H; try discriminate.
  - reflexivity.
  - injection H as H1 H2. destruct i as [|i]; unfold vars_at in *; simpl; [exact H1|apply IH; exact H2].
Qed.

Lemma den_upd : forall l i c, (i < length l)%nat ->
  den (upd_coef i c l) = den l + (c - coef_at l i) * mon (vars_at l i).
Proof.
  induction l as [|p l IH]; intros [|i] c H; simpl in H; try lia.
  - cbn [upd_coef]. rewrite !den_cons. unfold dpart, coef_at, vars_at. simpl. ring.
  - cbn [upd_coef]. rewrite !den_cons, IH by lia. unfold coef_at, vars_at. simpl. ring.
Qed.

Lemma coef_at_upd_other : forall l i j c, i <> j -> coef_at (upd_coef i c l) j = coef_at l j.
Proof.
  induction l as [|p l IH]; intros [|i] [|j] c H; simpl; try reflexivity; try congruence.
  unfold coef_at in *. simpl. apply IH. congruence.
Qed.

Lemma coef_at_upd_same : forall l i c, (i < length l)%nat -> coef_at (upd_coef i c l) i = c.
Proof.
  induction l as [|p l IH]; intros [|i] c H; simpl in H; try lia; [reflexivity|].
  unfold coef_at in *. simpl. apply IH. lia.
Qed.

Lemma pair_update_den : forall ps i j, (i < length ps)%nat -> (j < length ps)%nat -> i <> j ->
  dedup (vars_at ps i) = dedup (vars_at ps j) ->
  den (upd_coef j (wadd w (coef_at ps j) (half_mod w)) (upd_coef i (wadd w (coef_at ps i) (half_mod w)) ps)) == den ps.
Proof.
  intros ps i j Hi Hj Hne Hk.
  rewrite den_upd by (rewrite upd_coef_length; exact Hj).
  rewrite den_upd by exact Hi.
  rewrite (coef_at_upd_other ps i j _ Hne).
  rewrite (vars_at_map (upd_coef i (wadd w (coef_at ps i) (half_mod w)) ps) ps j (upd_coef_vars _ _ _)).
  rewrite !wadd_eqm.
  replace (den ps + (coef_at ps i + half_mod w - coef_at ps i) * mon (vars_at ps i)
           + (coef_at ps j + half_mod w - coef_at ps j) * mon (vars_at ps j))
    with (den ps + half_mod w * (mon (vars_at ps i) + mon (vars_at ps j))) by ring.
  assert (P : eqm 2 (mon (vars_at ps i) + mon (vars_at ps j)) 0).
  { rewrite <- (mon_dedup_parity (vars_at ps i)), <- (mon_dedup_parity (vars_at ps j)), Hk.
    replace (mon (dedup (vars_at ps j)) + mon (dedup (vars_at ps j))) with (mon (dedup (vars_at ps j)) * 2) by ring.
    unfold eqm. rewrite Z.mod_mul by lia. reflexivity. }
  rewrite (hm_parity _ _ P). ring_simplify. reflexivity.
Qed.

Lemma list_eqb_refl : forall a, list_eqb a a = true.
Proof. induction a as [|x a IH]; simpl; [reflexivity|]. rewrite Z.eqb_refl, IH. reflexivity. Qed.

Lemma list_eqb_neq : forall a b, list_eqb a b = false -> a <> b.
Proof. intros a b H E. subst. rewrite list_eqb_refl in H. discriminate. Qed.

Definition entry_ok (a : expr) (bound : nat) (kx : list Z * list nat) : Prop :=
  forall j, In j (snd kx) -> (j < bound)%nat /\ dedup (vars_at a j) = fst kx.
Definition by_red_ok (a : expr) (bound : nat) (m : list (list Z * list nat)) : Prop := Forall (entry_ok a bound) m.

Lemma by_red_lookup : forall a bound m key others, by_red_ok a bound m -> assoc_l key m = Some others ->
  forall j, In j others -> (j < bound)%nat /\ dedup (vars_at a j) = key.
Proof.
  intros a bound m key others H. induction H as [|[k x] m Hk Hm IH]; intros A j Hj; simpl in A; [discriminate|].
  destruct (list_eqb key k) eqn:E.
  - injection A as <-. apply list_eqb_eq in E. subst k. apply (Hk j Hj).
  - apply IH; assumption.
Qed.

Lemma by_red_weaken : forall a i m, by_red_ok a i m -> by_red_ok a (S i) m.
Proof.
  intros a i m H. unfold by_red_ok in *. eapply Forall_impl; [|exact H].
  intros kx Hk j Hj. destruct (Hk j Hj) as [L D]. split; [lia|exact D].
Qed.

Lemma by_red_push : forall a i m key, by_red_ok a i m -> dedup (vars_at a i) = key ->
  by_red_ok a (S i) (assoc_l_push key i m).
Proof.
  intros a i m key H K. induction H as [|[k x] m Hk Hm IH]; simpl.
  - constructor; [|constructor]. intros j [<-|[]]. split; [lia|exact K].
  - destruct (list_eqb key k) eqn:E.
    + apply list_eqb_eq in E. subst k. constructor.
      * intros j Hj. simpl in Hj. apply in_app_or in Hj. destruct Hj as [Hj|[<-|[]]].
        -- destruct (Hk j Hj) as [L D]. split; [lia|exact D].
        -- split; [lia|exact K].
      * apply by_red_weaken. exact Hm.
    + constructor; [|exact IH]. intros j Hj. destruct (Hk j Hj) as [L D]. split; [lia|exact D].
Qed.

(** the inner loop over the earlier parts with the same reduced variable list *)
Lemma inner_fold_phase2 : forall a i others pn,
  (i < length a)%nat -> map snd (fst pn) = map snd a ->
  (forall j, In j others -> (j < i)%nat /\ dedup (vars_at a j) = dedup (vars_at a i)) ->
  map snd (fst (phase2_inner w i others pn)) = map snd a /\ den (fst (phase2_inner w i others pn)) == den (fst pn).
Proof.
  intros a i others. unfold phase2_inner. induction others as [|j others IH]; intros [ps nd] Hi Hv Ho; cbn [fold_left].
  - split; [exact Hv|reflexivity].
  - simpl in Hv. destruct (Ho j (or_introl eq_refl)) as [Lj Dj].
    assert (Len : length ps = length a) by (rewrite <- (map_length snd ps), Hv, map_length; reflexivity).
    cbn [fst snd]. destruct (norm_cond w (coef_at ps i) (coef_at ps j)).
    + cbv zeta.
      match goal with |- context [fold_left ?f others ?init] =>
        destruct (IH init Hi) as [V D] end.
      * cbn [fst]. rewrite !upd_coef_vars. exact Hv.
      * intros j' Hj'. apply Ho. right. exact Hj'.
      * split; [exact V|]. rewrite D. cbn [fst]. apply pair_update_den.
        -- exact (eq_ind_r (fun n => (i < n)%nat) Hi Len).
        -- assert (Hj2 : (j < length a)%nat) by lia. exact (eq_ind_r (fun n => (j < n)%nat) Hj2 Len).
        -- lia.
        -- rewrite (vars_at_map ps a i Hv), (vars_at_map ps a j Hv). symmetry. exact Dj.
    + apply (IH (ps, nd)); try assumption. intros j' Hj'. apply Ho. right. exact Hj'.
Qed.

Lemma step_phase2 : forall a i st,
  (i < length a)%nat -> map snd (fst (fst st)) = map snd a -> by_red_ok a i (snd (fst st)) ->
  let st' := phase2_step w st i in
  map snd (fst (fst st')) = map snd a /\ by_red_ok a (S i) (snd (fst st')) /\ den (fst (fst st')) == den (fst (fst st)).
Proof.
  intros a i [[parts by_red] need] Hi Hv Hok. cbn [fst snd] in Hv, Hok. unfold phase2_step. cbn [fst snd].
  destruct (length (vars_at parts i) =? 0)%nat.
  - cbn [fst snd]. split; [exact Hv|]. split; [apply by_red_weaken; exact Hok|reflexivity].
  - assert (Ka : dedup (vars_at parts i) = dedup (vars_at a i)) by (rewrite (vars_at_map parts a i Hv); reflexivity).
    destruct (assoc_l (dedup (vars_at parts i)) by_red) as [others|] eqn:A; cbn [fst snd].
    + assert (Ho : forall j, In j others -> (j < i)%nat /\ dedup (vars_at a j) = dedup (vars_at a i)).
      { intros j Hj. destruct (by_red_lookup a i by_red _ _ Hok A j Hj) as [L D]. split; [exact L|]. rewrite D, Ka. reflexivity. }
      destruct (inner_fold_phase2 a i others (parts, need) Hi Hv Ho) as [V D].
      split; [exact V|]. split; [apply by_red_push; [exact Hok|symmetry; exact Ka]|exact D].
    + split; [exact Hv|]. split; [apply by_red_push; [exact Hok|symmetry; exact Ka]|reflexivity].
Qed.

Lemma outer_fold_phase2 : forall a n i0 st,
  (i0 + n <= length a)%nat -> map snd (fst (fst st)) = map snd a -> by_red_ok a i0 (snd (fst st)) ->
  den (fst (fst (fold_left (phase2_step w) (seq i0 n) st))) == den (fst (fst st)).
Proof.
  intros a n. induction n as [|n IH]; intros i0 st Hb Hv Hok; cbn [seq fold_left]; [reflexivity|].
  destruct (step_phase2 a i0 st ltac:(lia) Hv Hok) as [V [B D]].
  rewrite IH; try lia; assumption.
Qed.

Lemma norm_phase2_den : forall a, den (norm_phase2 w a) == den a.
Proof.
  intros a. unfold norm_phase2.
  match goal with |- context [if ?c then _ else _] => destruct c end; [|reflexivity].
  pose proof (outer_fold_phase2 a (length a) 0 (a, [], false) (le_n _) eq_refl (Forall_nil _)) as H.
  cbv zeta. destruct (snd (fold_left (phase2_step w) (seq 0 (length a)) (a, [], false))); [rewrite den_filter_nonzero|]; exact H.
Qed.

Theorem den_normalize : forall a, den (e_normalize w a) == den a.
Proof.
  intros a. unfold e_normalize.
  match goal with |- context [if ?c then _ else _] => destruct c end; [|reflexivity].
  rewrite norm_phase2_den. apply norm_phase1_den.
Qed.

End Hom.

(** ** symbolic substitution: two environments *)
Section Subst.
Variable w : Z.
Hypothesis Hw : 0 <= w.
Notation "a == b" := (eqm (2 ^ w) a b) (at level 70).
Variable rho : Z -> Z.
Variable f : Z -> option expr.

(** the environment induced by the substitution *)
Definition sub (v : Z) : Z := match f v with Some e' => den rho e' | None => 0 end.

Lemma den_scale_sorted : forall ps q, den rho (scale_sorted w ps q) == den rho ps * dpart rho q.
Proof.
  intros ps q. unfold scale_sorted. rewrite den_filter_nonzero.
  induction ps as [|p ps IH]; [reflexivity|]. cbn [map]. rewrite !den_cons, IH.
  unfold dpart at 1. cbn [fst snd]. rewrite (mon_perm rho _ _ (sort_z_perm _)), mon_app, (wmul_eqm w Hw rho).
  unfold dpart. ring_simplify. reflexivity.
Qed.

Lemma mul_parts_inner : forall (pr : part) (left : expr) (m : amap),
  amap_den rho (fold_left (fun m pl => acc_add w (sort_z (snd pr ++ snd pl)) (wmul w (fst pr) (fst pl)) m) left m)
  == amap_den rho m + dpart rho pr * den rho left.
Proof.
  intros pr left. induction left as [|pl left IH]; intros m; cbn [fold_left].
  - rewrite den_nil. ring_simplify. reflexivity.
  - rewrite IH, (acc_add_den w Hw), (mon_perm rho _ _ (sort_z_perm _)), mon_app, (wmul_eqm w Hw rho), den_cons.
    unfold dpart. ring_simplify. reflexivity.
Qed.

Lemma mul_parts_outer : forall (right left : expr) (m : amap),
  amap_den rho (fold_left (fun m pr =>
      fold_left (fun m pl => acc_add w (sort_z (snd pr ++ snd pl)) (wmul w (fst pr) (fst pl)) m) left m) right m)
  == amap_den rho m + den rho right * den rho left.
Proof.
  induction right as [|pr right IH]; intros left m; cbn [fold_left].
  - rewrite den_nil. ring_simplify. reflexivity.
  - rewrite IH, mul_parts_inner, den_cons. ring_simplify. reflexivity.
Qed.

Lemma den_mul_parts : forall l r, den rho (mul_parts w l r) == den rho l * den rho r.
Proof.
  intros l r. unfold mul_parts.
  destruct l as [|q [|q2 l]]; destruct r as [|s [|s2 r]];
    try (rewrite den_scale_sorted); try (rewrite amap_list_den, mul_parts_outer);
    rewrite ?den_cons, ?den_nil; cbn [amap_den fold_right]; ring_simplify; try reflexivity.
Qed.

Lemma acc_fold_den : forall c ev m,
  amap_den rho (fold_left (fun m vp => acc_add w (snd vp) (wmul w c (fst vp)) m) ev m) == amap_den rho m + c * den rho ev.
Proof.
  intros c ev. induction ev as [|vp ev IH]; intros m; cbn [fold_left].
  - rewrite den_nil. ring_simplify. reflexivity.
  - rewrite IH, (acc_add_den w Hw), (wmul_eqm w Hw rho), den_cons. unfold dpart. ring_simplify. reflexivity.
Qed.

Lemma partial_fold_den : forall vs ev partial,
  fold_left (fun partial v' =>
      match partial with
      | None => None
      | Some pr => match f v' with Some e' => Some (mul_parts w pr e') | None => None end
      end) vs (Some ev) = Some partial ->
  den rho partial == den rho ev * mon sub vs.
Proof.
  induction vs as [|v vs IH]; intros ev partial H; cbn [fold_left] in H.
  - injection H as <-. simpl. ring_simplify. reflexivity.
  - destruct (f v) as [e'|] eqn:F.
    + rewrite (IH _ _ H), den_mul_parts. rewrite mon_cons. unfold sub at 2. rewrite F. ring_simplify. reflexivity.
    + exfalso. clear -H. induction vs as [|x vs IHv]; simpl in H; [discriminate|apply IHv; exact H].
Qed.

Theorem den_symb_evaluate : forall a r, e_symb_evaluate w a f = Some r -> den rho r == den sub a.
Proof.
  intros a r H. unfold e_symb_evaluate in H.
  destruct (e_identity a) as [x|] eqn:I.
  - rewrite (den_identity sub a x I). unfold sub. rewrite H. reflexivity.
  - destruct (e_constant a) as [c|] eqn:C.
    + injection H as <-. rewrite (den_val w Hw), (den_constant sub a c C). reflexivity.
    + match type of H with match fold_left ?step a (Some []) with _ => _ end = _ =>
        assert (G : forall l m0 m1, fold_left step l (Some m0) = Some m1 ->
                      amap_den rho m1 == amap_den rho m0 + den sub l) end.
      { induction l as [|p l IH]; intros m0 m1 Hf; cbn [fold_left] in Hf.
        - injection Hf as <-. rewrite den_nil. ring_simplify. reflexivity.
        - destruct p as [c0 vs]. cbn [fst snd] in Hf. rewrite den_cons.
          destruct vs as [|v vs].
          + rewrite (IH _ _ Hf), (acc_add_den w Hw). unfold dpart. simpl. ring_simplify. reflexivity.
          + destruct vs as [|v2 vs].
            * destruct (f v) as [ev|] eqn:F.
              -- rewrite (IH _ _ Hf), acc_fold_den. unfold dpart. cbn [fst snd]. rewrite !mon_cons. unfold sub at 2. rewrite F.
                 simpl. ring_simplify. reflexivity.
              -- exfalso. clear -Hf. induction l as [|x l IHl]; simpl in Hf; [discriminate|apply IHl; exact Hf].
            * destruct (f v) as [ev|] eqn:F.
              -- match type of Hf with context [fold_left ?g (v2 :: vs) (Some ev)] =>
                   destruct (fold_left g (v2 :: vs) (Some ev)) as [partial|] eqn:P end.
                 ++ rewrite (IH _ _ Hf), acc_fold_den, (partial_fold_den _ _ _ P).
                    unfold dpart. cbn [fst snd]. rewrite (mon_cons sub v). unfold sub at 3. rewrite F. ring_simplify. reflexivity.
                 ++ exfalso. clear -Hf. induction l as [|x l IHl]; simpl in Hf; [discriminate|apply IHl; exact Hf].
              -- exfalso. clear -Hf. induction l as [|x l IHl]; simpl in Hf; [discriminate|apply IHl; exact Hf]. }
      match type of H with match ?fl with _ => _ end = _ => destruct fl as [m|] eqn:FL end; [|discriminate].
      injection H as <-. rewrite amap_parts_den. rewrite (G a [] m FL). simpl. ring_simplify. reflexivity.
Qed.

End Subst.

(** ** the statements in terms of [eval] (the model of [Expr::evaluate]) *)
Section Final.
Variable w : Z.
Hypothesis Hw : 0 <= w.
Notation "a == b" := (eqm (2 ^ w) a b) (at level 70).

Theorem eval_add : forall rho a b, eval w (e_add w a b) rho == eval w a rho + eval w b rho.
Proof. intros. rewrite !(eval_den w Hw). apply (den_add w Hw). Qed.

Theorem eval_mul : forall rho a b, eval w (e_mul w a b) rho == eval w a rho * eval w b rho.
Proof. intros. rewrite !(eval_den w Hw). apply (den_mul w Hw). Qed.

Theorem eval_neg : forall rho a, eval w (e_neg w a) rho == - eval w a rho.
Proof. intros. rewrite !(eval_den w Hw). apply (den_neg w Hw). Qed.

Theorem eval_half : forall rho a h, e_half w a = Some h -> 2 * eval w h rho == eval w a rho.
Proof. intros rho a h H. rewrite !(eval_den w Hw). apply (den_half w Hw rho a h H). Qed.

Theorem eval_normalize : forall rho a, eval w (e_normalize w a) rho == eval w a rho.
Proof. intros. rewrite !(eval_den w Hw). apply (den_normalize w Hw). Qed.

Theorem eval_val : forall rho c, eval w (e_val c) rho == c.
Proof. intros. rewrite (eval_den w Hw), (den_val w Hw). reflexivity. Qed.

Theorem eval_var : forall rho v, eval w (e_var v) rho == rho v.
Proof. intros. rewrite (eval_den w Hw), den_var. reflexivity. Qed.

(** substitution: the value of the result under [rho] is the value of the original expression
    under the environment that maps each variable to the value of its substituted expression *)
Theorem eval_symb : forall rho f a r, e_symb_evaluate w a f = Some r ->
  eval w r rho == eval w a (fun v => match f v with Some e' => eval w e' rho | None => 0 end).
Proof.
  intros rho f a r H. rewrite (eval_den w Hw), (den_symb_evaluate w Hw rho f a r H).
  rewrite (eval_den w Hw).
  (* den depends on the environment only up to congruence *)
  assert (E : forall (s1 s2 : Z -> Z), (forall v, s1 v == s2 v) -> forall e, den s1 e == den s2 e).
  { intros s1 s2 Hs. assert (Mo : forall vs, mon s1 vs == mon s2 vs).
    { induction vs as [|v vs IH]; [reflexivity|]. rewrite !mon_cons, IH, (Hs v). reflexivity. }
    induction e as [|p e IH]; [reflexivity|]. rewrite !den_cons, IH. unfold dpart. rewrite (Mo (snd p)). reflexivity. }
  apply E. intros v. unfold sub. destruct (f v); [symmetry; apply (eval_den w Hw)|reflexivity].
Qed.

Theorem eval_constant : forall rho a c, e_constant a = Some c -> eval w a rho == c.
Proof. intros. rewrite (eval_den w Hw), (den_constant rho a c H). reflexivity. Qed.

Theorem eval_identity : forall rho a x, e_identity a = Some x -> eval w a rho == rho x.
Proof. intros. rewrite (eval_den w Hw), (den_identity rho a x H). reflexivity. Qed.

Theorem eval_const_inc_of : forall rho a v c, e_const_inc_of a v = Some c -> eval w a rho == rho v + c.
Proof. intros. rewrite (eval_den w Hw), (den_const_inc_of rho a v c H). reflexivity. Qed.

Theorem eval_prod_of : forall rho a v r, e_prod_of w a v = Some r -> eval w a rho == rho v * eval w r rho.
Proof. intros. rewrite !(eval_den w Hw), (den_prod_of w Hw rho a v r H). reflexivity. Qed.

Theorem eval_inc_of_partial : forall rho a v r, singles_unique v a -> e_inc_of a v = Some r ->
  eval w a rho == rho v + eval w r rho.
Proof. intros rho a v r U H. rewrite !(eval_den w Hw), (den_inc_of w rho a v r U H). reflexivity. Qed.

Theorem eval_prod_inc_of_partial : forall rho a v r m, singles_unique v a -> e_prod_inc_of a v = Some (r, m) ->
  eval w a rho == m * rho v + eval w r rho.
Proof. intros rho a v r m U H. rewrite !(eval_den w Hw), (den_prod_inc_of w rho a v r m U H). reflexivity. Qed.

Theorem eval_constant_part_partial : forall a, const_first a -> eval w a (fun _ => 0) == e_constant_part a.
Proof. intros a C. rewrite (eval_den w Hw), (den_constant_part (fun _ => 0) a C (fun _ => eq_refl)). reflexivity. Qed.

End Final.

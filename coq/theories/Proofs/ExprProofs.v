(** * ExprProofs.v — the symbolic expression algebra agrees with concrete arithmetic modulo 2^w
    (property C15). [den] is the value of an expression in Z; [eval] (the model of
    [Expr::evaluate]) is congruent to it, and every combinator is a homomorphism up to [eqm]. *)

From Coq Require Import ZArith List Bool Lia Zdiv Permutation Morphisms Setoid.
From HPBF Require Import Cell Expr CellProofs.
Import ListNotations.
Open Scope Z_scope.
#[local] Existing Instances eqm_setoid Zplus_eqm Zminus_eqm Zmult_eqm Zopp_eqm.
Local Arguments Z.mul : simpl never.
Local Arguments Z.add : simpl never.
Local Arguments Z.opp : simpl never.
Local Arguments Z.sub : simpl never.
Local Arguments Z.pow : simpl never.

Section Hom.
Variable w : Z.
Hypothesis Hw : 0 <= w.
Let M := 2 ^ w.
Notation "a == b" := (eqm M a b) (at level 70).
Variable rho : Z -> Z.

Lemma eqm_def : forall a b, (a == b) <-> a mod M = b mod M.
Proof. intros. unfold eqm. tauto. Qed.

Lemma M_pos : 0 < M. Proof. subst M. apply Z.pow_pos_nonneg; [reflexivity|exact Hw]. Qed.

Definition mon (vs : list Z) : Z := fold_right (fun v acc => rho v * acc) 1 vs.
Definition dpart (p : part) : Z := fst p * mon (snd p).
Definition den (e : expr) : Z := fold_right (fun p acc => dpart p + acc) 0 e.

Lemma mon_app : forall a b, mon (a ++ b) = mon a * mon b.
Proof. induction a as [|x a IH]; intros b; simpl; [ring|rewrite IH; ring]. Qed.

Lemma den_app : forall a b, den (a ++ b) = den a + den b.
Proof. induction a as [|x a IH]; intros b; simpl; [ring|rewrite IH; ring]. Qed.

Lemma mon_perm : forall a b, Permutation a b -> mon a = mon b.
Proof. intros a b H. induction H; simpl; try ring; try congruence. Qed.

Lemma den_perm : forall a b, Permutation a b -> den a = den b.
Proof. intros a b H. induction H; simpl; try ring; try congruence. Qed.

Lemma wadd_eqm : forall a b, wadd w a b == a + b.
Proof. intros. unfold wadd. apply eqm_def; apply Z.mod_mod; pose proof M_pos; fold M; lia. Qed.
Lemma wmul_eqm : forall a b, wmul w a b == a * b.
Proof. intros. unfold wmul. apply eqm_def; apply Z.mod_mod; pose proof M_pos; fold M; lia. Qed.
Lemma wneg_eqm : forall a, wneg w a == - a.
Proof. intros. unfold wneg. apply eqm_def; apply Z.mod_mod; pose proof M_pos; fold M; lia. Qed.

Lemma eqm_zero_mul : forall a b, a == 0 -> a * b == 0.
Proof. intros a b H. rewrite H. reflexivity. Qed.

Lemma eqb0_eqm : forall a, (a =? 0) = true -> a == 0.
Proof. intros a H. apply Z.eqb_eq in H. subst. reflexivity. Qed.

(** ** evaluation *)
Lemma fold_mul_den : forall vs acc,
  fold_left (fun pv v => wmul w pv (rho v)) vs acc == acc * mon vs.
Proof.
  induction vs as [|v vs IH]; intros acc; simpl.
  - replace (acc * 1) with acc by ring. reflexivity.
  - rewrite IH. rewrite wmul_eqm. replace (acc * rho v * mon vs) with (acc * (rho v * mon vs)) by ring. reflexivity.
Qed.

Lemma eval_part_den : forall p, eval_part w rho p == dpart p.
Proof. intros p. unfold eval_part, dpart. apply fold_mul_den. Qed.

Lemma fold_add_den : forall e acc,
  fold_left (fun val p => wadd w val (eval_part w rho p)) e acc == acc + den e.
Proof.
  induction e as [|p e IH]; intros acc; simpl.
  - replace (acc + 0) with acc by ring. reflexivity.
  - rewrite IH. rewrite wadd_eqm, eval_part_den. replace (acc + dpart p + den e) with (acc + (dpart p + den e)) by ring. reflexivity.
Qed.

Theorem eval_den : forall e, eval w e rho == den e.
Proof. intros e. unfold eval. rewrite fold_add_den. reflexivity. Qed.

(** ** constructors *)
Lemma den_val : forall c, den (e_val c) = c.
Proof. intros c. unfold e_val. destruct (c =? 0) eqn:E; simpl; [apply Z.eqb_eq in E; lia|unfold dpart; simpl; ring]. Qed.

Lemma den_var : forall v, den (e_var v) = rho v.
Proof. intros v. unfold e_var, den, dpart. simpl. ring. Qed.

(** ** add *)
Lemma lcmp_eq : forall a b, lcmp a b = Eq -> a = b.
Proof.
  induction a as [|x a IH]; intros b H; destruct b as [|y b]; simpl in H; try discriminate; [reflexivity|].
  destruct (x ?= y) eqn:E; try discriminate. apply Z.compare_eq in E. subst. f_equal. apply IH. exact H.
Qed.

Lemma den_cons : forall p e, den (p :: e) = dpart p + den e.
Proof. reflexivity. Qed.
Lemma den_nil : den [] = 0.
Proof. reflexivity. Qed.

Lemma e_add_cons : forall pa a' pb b',
  e_add w (pa :: a') (pb :: b') =
  match lcmp (snd pa) (snd pb) with
  | Lt => pa :: e_add w a' (pb :: b')
  | Gt => pb :: e_add w (pa :: a') b'
  | Eq => let c := wadd w (fst pa) (fst pb) in
          if c =? 0 then e_add w a' b' else (c, snd pa) :: e_add w a' b'
  end.
Proof. reflexivity. Qed.

Lemma e_add_nil_r : forall a, e_add w a [] = a.
Proof. destruct a; reflexivity. Qed.

Theorem den_add : forall a b, den (e_add w a b) == den a + den b.
Proof.
  induction a as [|pa a' IHa]; intros b.
  - cbn [e_add]. rewrite den_nil. rewrite Z.add_0_l. reflexivity.
  - induction b as [|pb b' IHb].
    + rewrite e_add_nil_r, den_nil, Z.add_0_r. reflexivity.
    + rewrite e_add_cons. destruct (lcmp (snd pa) (snd pb)) eqn:C.
      * apply lcmp_eq in C. cbv zeta.
        assert (S : dpart pa + dpart pb == wadd w (fst pa) (fst pb) * mon (snd pa)).
        { rewrite wadd_eqm. unfold dpart. rewrite <- C. ring_simplify. reflexivity. }
        destruct (wadd w (fst pa) (fst pb) =? 0) eqn:Z0.
        -- rewrite IHa, !den_cons.
           replace (dpart pa + den a' + (dpart pb + den b')) with ((dpart pa + dpart pb) + (den a' + den b')) by ring.
           rewrite S. apply Z.eqb_eq in Z0. rewrite Z0. rewrite Z.mul_0_l, Z.add_0_l. reflexivity.
        -- rewrite !den_cons, IHa.
           replace (dpart pa + den a' + (dpart pb + den b')) with ((dpart pa + dpart pb) + (den a' + den b')) by ring.
           rewrite S. unfold dpart at 1. cbn [fst snd]. reflexivity.
      * rewrite !den_cons, IHa, den_cons. ring_simplify. reflexivity.
      * rewrite !den_cons, IHb, den_cons. ring_simplify. reflexivity.
Qed.

(** ** mul *)
Lemma den_filter_nonzero : forall e, den (filter nonzero e) = den e.
Proof.
  induction e as [|p e IH]; simpl; [reflexivity|]. unfold nonzero at 1.
  destruct (fst p =? 0) eqn:E; simpl; rewrite IH; [|reflexivity].
  apply Z.eqb_eq in E. unfold dpart. rewrite E. ring.
Qed.

Lemma den_scale_raw : forall ps q,
  den (map (fun p => (wmul w (fst p) (fst q), snd p ++ snd q)) ps) == den ps * dpart q.
Proof.
  induction ps as [|p ps IH]; intros q; simpl; [reflexivity|].
  rewrite IH. unfold dpart at 1. cbn [fst snd]. rewrite mon_app, wmul_eqm. unfold dpart. ring_simplify. reflexivity.
Qed.

Lemma den_scale : forall ps q, den (scale_parts w ps q) == den ps * dpart q.
Proof. intros. unfold scale_parts. rewrite den_filter_nonzero. apply den_scale_raw. Qed.

Definition amap_den (m : amap) : Z := fold_right (fun kc acc => snd kc * mon (fst kc) + acc) 0 m.

Lemma list_eqb_eq : forall a b, list_eqb a b = true -> a = b.
Proof.
  induction a as [|x a IH]; intros b H; destruct b as [|y b]; simpl in H; try discriminate; [reflexivity|].
  apply andb_true_iff in H. destruct H as [H1 H2]. apply Z.eqb_eq in H1. subst. f_equal. apply IH. exact H2.
Qed.

Lemma acc_add_den : forall k c m, amap_den (acc_add w k c m) == amap_den m + c * mon k.
Proof.
  intros k c m. induction m as [|[k' c'] m IH]; simpl.
  - rewrite wadd_eqm. ring_simplify. reflexivity.
  - destruct (list_eqb k k') eqn:E; simpl.
    + apply list_eqb_eq in E. subst. rewrite wadd_eqm. ring_simplify. reflexivity.
    + rewrite IH. ring_simplify. reflexivity.
Qed.

Lemma insert_z_perm : forall x l, Permutation (insert_z x l) (x :: l).
Proof.
  intros x l. induction l as [|y t IH]; simpl; [reflexivity|].
  destruct (x <=? y); [reflexivity|]. rewrite IH. apply perm_swap.
Qed.
Lemma sort_z_perm : forall l, Permutation (sort_z l) l.
Proof. induction l as [|x t IH]; simpl; [reflexivity|]. rewrite insert_z_perm. apply perm_skip, IH. Qed.

Lemma insert_part_perm : forall p l, Permutation (insert_part p l) (p :: l).
Proof.
  intros p l. induction l as [|q t IH]; simpl; [reflexivity|].
  destruct (lcmp (snd p) (snd q)); try reflexivity. rewrite IH. apply perm_swap.
Qed.
Lemma sort_parts_perm : forall l, Permutation (sort_parts l) l.
Proof. induction l as [|x t IH]; simpl; [reflexivity|]. rewrite insert_part_perm. apply perm_skip, IH. Qed.

Lemma den_map_swap : forall m, den (map (fun kc : list Z * Z => (snd kc, fst kc)) m) = amap_den m.
Proof. induction m as [|[k c] m IH]; simpl; [reflexivity|]. rewrite IH. unfold dpart. reflexivity. Qed.

Lemma amap_parts_den : forall m, den (amap_parts m) = amap_den m.
Proof.
  intros m. unfold amap_parts. rewrite (den_perm _ _ (sort_parts_perm _)).
  rewrite den_filter_nonzero. apply den_map_swap.
Qed.

Lemma amap_list_den : forall m, den (amap_list m) = amap_den m.
Proof. intros m. unfold amap_list. rewrite den_filter_nonzero. apply den_map_swap. Qed.

Lemma inner_fold_den : forall (pa : part) (b : expr) (m : amap),
  amap_den (fold_left (fun m pb => acc_add w (sort_z (snd pa ++ snd pb)) (wmul w (fst pa) (fst pb)) m) b m)
  == amap_den m + dpart pa * den b.
Proof.
  intros pa b. induction b as [|pb b IH]; intros m; simpl.
  - ring_simplify. reflexivity.
  - rewrite IH. rewrite acc_add_den. rewrite (mon_perm _ _ (sort_z_perm _)), mon_app, wmul_eqm.
    unfold dpart. ring_simplify. reflexivity.
Qed.

Lemma outer_fold_den : forall (a b : expr) (m : amap),
  amap_den (fold_left (fun m pa =>
       fold_left (fun m pb => acc_add w (sort_z (snd pa ++ snd pb)) (wmul w (fst pa) (fst pb)) m) b m) a m)
  == amap_den m + den a * den b.
Proof.
  induction a as [|pa a IH]; intros b m; simpl.
  - ring_simplify. reflexivity.
  - rewrite IH. rewrite inner_fold_den. ring_simplify. reflexivity.
Qed.

Lemma den_mul_general : forall a b, den (mul_general w a b) == den a * den b.
Proof. intros. unfold mul_general. rewrite amap_parts_den. rewrite outer_fold_den. simpl. reflexivity. Qed.

Theorem den_mul : forall a b, den (e_mul w a b) == den a * den b.
Proof.
  intros a b. unfold e_mul.
  destruct a as [|q [|q2 a]]; destruct b as [|r [|r2 b]];
    try (rewrite den_scale); try (apply den_mul_general);
    rewrite ?den_cons, ?den_nil; ring_simplify; try reflexivity.
Qed.

(** ** neg, half *)
Theorem den_neg : forall a, den (e_neg w a) == - den a.
Proof.
  induction a as [|p a IH]; simpl; [reflexivity|].
  rewrite IH. unfold dpart at 1. cbn [fst snd]. rewrite wneg_eqm. unfold dpart. ring_simplify. reflexivity.
Qed.

Lemma half_coef : forall c, is_odd c = false -> 2 * wshr w c 1 == c.
Proof.
  intros c H. rewrite is_odd_spec in H. unfold wshr.
  destruct (1 <? w) eqn:E.
  - rewrite Z.shiftr_div_pow2 by lia. change (2 ^ 1) with 2.
    rewrite <- (even_mod2 c H). reflexivity.
  - apply Z.ltb_ge in E. apply eqm_def. rewrite Z.mul_0_r.
    (* M is 1 or 2 and c is even *)
    assert (HM : M = 1 \/ M = 2).
    { unfold M. assert (w = 0 \/ w = 1) as [->| ->] by lia; [left|right]; reflexivity. }
    rewrite (even_mod2 c H). destruct HM as [-> | ->].
    + rewrite !Z.mod_1_r. reflexivity.
    + rewrite Z.mul_comm, Z.mod_mul by lia. reflexivity.
Qed.

Theorem den_half : forall a h, e_half w a = Some h -> 2 * den h == den a.
Proof.
  intros a h H. unfold e_half in H.
  destruct (forallb (fun p => negb (is_odd (fst p))) a) eqn:F; [|discriminate]. injection H as <-.
  induction a as [|p a IH]; simpl; [reflexivity|].
  simpl in F. apply andb_true_iff in F. destruct F as [F1 F2]. apply negb_true_iff in F1.
  specialize (IH F2). unfold dpart at 1. cbn [fst snd].
  replace (2 * (wshr w (fst p) 1 * mon (snd p) + den (map (fun p0 => (wshr w (fst p0) 1, snd p0)) a)))
    with ((2 * wshr w (fst p) 1) * mon (snd p) + 2 * den (map (fun p0 => (wshr w (fst p0) 1, snd p0)) a)) by ring.
  rewrite IH, (half_coef _ F1). unfold dpart. reflexivity.
Qed.

(** ** decompositions that hold for every expression *)
Theorem den_constant : forall a c, e_constant a = Some c -> den a = c.
Proof.
  intros a c H. destruct a as [|[c0 vs] a]; simpl in H; [injection H as <-; reflexivity|].
  destruct vs; [|discriminate]. destruct a; [|discriminate]. injection H as <-.
  rewrite den_cons, den_nil. unfold dpart. simpl. ring.
Qed.

Theorem den_identity : forall a x, e_identity a = Some x -> den a = rho x.
Proof.
  intros a x H. destruct a as [|[c vs] a]; simpl in H; [discriminate|].
  destruct vs as [|v vs]; [discriminate|]. destruct vs; [|discriminate]. destruct a; [|discriminate].
  destruct (c =? 1) eqn:E; [|discriminate]. injection H as <-. apply Z.eqb_eq in E. subst.
  rewrite den_cons, den_nil. unfold dpart. simpl. ring.
Qed.

Theorem den_const_inc_of : forall a v c, e_const_inc_of a v = Some c -> den a = rho v + c.
Proof.
  intros a v c H. unfold e_const_inc_of in H.
  destruct a as [|[c0 vs0] a]; [discriminate|].
  destruct vs0 as [|x0 vs0].
  - destruct a as [|[c1 vs1] a]; [discriminate|]. destruct vs1 as [|x1 vs1]; [discriminate|].
    destruct vs1; [|discriminate]. destruct a; [|discriminate].
    destruct ((c1 =? 1) && (x1 =? v)) eqn:E; [|discriminate]. injection H as <-.
    apply andb_true_iff in E. destruct E as [E1 E2]. apply Z.eqb_eq in E1, E2. subst.
    rewrite !den_cons, den_nil. unfold dpart. simpl. ring.
  - destruct vs0; [|discriminate]. destruct a; [|discriminate].
    destruct ((c0 =? 1) && (x0 =? v)) eqn:E; [|discriminate]. injection H as <-.
    apply andb_true_iff in E. destruct E as [E1 E2]. apply Z.eqb_eq in E1, E2. subst.
    rewrite den_cons, den_nil. unfold dpart. simpl. ring.
Qed.

Lemma mon_remove_one : forall v vs, count v vs = 1%nat -> mon vs = rho v * mon (remove_var v vs).
Proof.
  intros v. induction vs as [|x vs IH]; intros H; simpl in H; [discriminate|].
  unfold remove_var. cbn [filter]. destruct (x =? v) eqn:E.
  - apply Z.eqb_eq in E. subst. injection H as H. simpl.
    assert (Z0 : forall l, count v l = 0%nat -> filter (fun x => negb (x =? v)) l = l).
    { induction l as [|y l IHl]; intros Hc; simpl in *; [reflexivity|].
      destruct (y =? v); [discriminate|]. simpl. f_equal. apply IHl. exact Hc. }
    rewrite (Z0 vs H). reflexivity.
  - simpl. fold (remove_var v vs). rewrite (IH H). ring.
Qed.

Theorem den_prod_of : forall a v r, e_prod_of a v = Some r -> den a = rho v * den r.
Proof.
  intros a v r H. unfold e_prod_of in H.
  destruct (forallb (fun p => (count v (snd p) =? 1)%nat) a) eqn:F; [|discriminate]. injection H as <-.
  revert F. induction a as [|p a IH]; intros F; [simpl; ring|].
  simpl in F. apply andb_true_iff in F. destruct F as [F1 F2]. apply Nat.eqb_eq in F1.
  cbn [map]. rewrite !den_cons, (IH F2). unfold dpart. cbn [fst snd]. rewrite (mon_remove_one v _ F1). ring.
Qed.

(** ** decompositions that rely on the shape of reachable expressions:
    [singles_unique v a]: at most one part of [a] is the bare variable [v];
    [const_first a]: a constant part, if any, is the first part *)
Definition singles_unique (v : Z) (a : expr) : Prop := (length (filter (is_single v) a) <= 1)%nat.
Definition const_first (a : expr) : Prop := forall p, In p (tl a) -> snd p <> [].

Lemma den_partition : forall (f : part -> bool) a, den a = den (filter f a) + den (filter (fun p => negb (f p)) a).
Proof.
  intros f a. induction a as [|p a IH]; [reflexivity|]. cbn [filter]. destruct (f p); simpl; rewrite ?den_cons, IH; ring.
Qed.

Lemma is_single_spec : forall v p, is_single v p = true -> snd p = [v].
Proof.
  intros v [c vs] H. unfold is_single in H. simpl in *. destruct vs as [|x vs]; [discriminate|].
  destruct vs; [|discriminate]. apply Z.eqb_eq in H. subst. reflexivity.
Qed.

Theorem den_prod_inc_of : forall a v r m, singles_unique v a -> e_prod_inc_of a v = Some (r, m) ->
  den a = m * rho v + den r.
Proof.
  intros a v r m U H. unfold e_prod_inc_of in H.
  match type of H with (if ?c then _ else _) = _ => destruct c end; [|discriminate]. injection H as <- <-.
  rewrite (den_partition (is_single v) a). f_equal.
  unfold singles_unique in U.
  assert (G : forall a0 m0, (length (filter (is_single v) a0) <= 1)%nat ->
            den (filter (is_single v) a0) = (fold_left (fun m p => if is_single v p then fst p else m) a0 m0
                                             - (if (length (filter (is_single v) a0) =? 0)%nat then m0 else 0)) * rho v).
  { induction a0 as [|p a0 IHa]; intros m0 L; simpl.
    - ring.
    - destruct (is_single v p) eqn:S; simpl in *; rewrite ?S in L; simpl in L.
      + assert (L0 : length (filter (is_single v) a0) = 0%nat) by lia.
        assert (E : filter (is_single v) a0 = []) by (destruct (filter (is_single v) a0); [reflexivity|discriminate]).
        rewrite E. change (den []) with 0.
        assert (K : forall l x, filter (is_single v) l = [] -> fold_left (fun m p0 => if is_single v p0 then fst p0 else m) l x = x).
        { induction l as [|q l IHl]; intros x Hq; simpl; [reflexivity|]. simpl in Hq.
          destruct (is_single v q); [discriminate|]. apply IHl. exact Hq. }
        rewrite (K _ _ E). unfold dpart. rewrite (is_single_spec _ _ S). simpl. ring.
      + apply IHa. exact L. }
  rewrite (G a 0 U). destruct (length (filter (is_single v) a) =? 0)%nat; ring.
Qed.

Theorem den_inc_of : forall a v r, singles_unique v a -> e_inc_of a v = Some r -> den a = rho v + den r.
Proof.
  intros a v r U H. unfold e_inc_of in H.
  destruct (existsb (fun p => (fst p =? 1) && is_single v p) a) eqn:Ex; [|discriminate].
  match type of H with (if ?c then _ else _) = _ => destruct c end; [|discriminate]. simpl in H. injection H as <-.
  rewrite (den_partition (is_single v) a). f_equal.
  apply existsb_exists in Ex. destruct Ex as [p [Hin Hp]]. apply andb_true_iff in Hp. destruct Hp as [H1 HS].
  apply Z.eqb_eq in H1.
  assert (Hf : In p (filter (is_single v) a)) by (apply filter_In; split; assumption).
  unfold singles_unique in U.
  destruct (filter (is_single v) a) as [|q l] eqn:E; [contradiction|].
  destruct l; [|simpl in U; lia]. destruct Hf as [->|[]].
  rewrite den_cons, den_nil. unfold dpart. rewrite H1, (is_single_spec _ _ HS). simpl. ring.
Qed.

Theorem den_constant_part : forall a, const_first a -> (forall v, rho v = 0) -> den a = e_constant_part a.
Proof.
  intros a CF Z0.
  assert (V : forall l, (forall p, In p l -> snd p <> []) -> den l = 0).
  { induction l as [|p l IH]; intros Hl; [reflexivity|]. rewrite den_cons, IH by (intros q Hq; apply Hl; right; exact Hq).
    unfold dpart. destruct (snd p) as [|x vs] eqn:E; [exfalso; apply (Hl p); [left; reflexivity|exact E]|].
    simpl. rewrite Z0. ring. }
  destruct a as [|[c vs] a]; [reflexivity|]. rewrite den_cons. unfold const_first in CF. simpl in CF.
  rewrite (V a CF). unfold dpart. simpl. destruct vs as [|x vs]; simpl; [ring|rewrite Z0; ring].
Qed.

End Hom.

(** * CliProofs.v — the argument loop equals the declarative reading of the command line. *)
From Coq Require Import ZArith List Bool String Ascii.
From HPBF Require Import Cli.
Import ListNotations.
Open Scope string_scope.

Lemma app_assoc_s : forall a b c : string, (a ++ b) ++ c = a ++ (b ++ c).
Proof. induction a as [|x a IH]; intros b c; simpl; [reflexivity|rewrite IH; reflexivity]. Qed.
Lemma app_nil_s : forall a : string, a ++ "" = a.
Proof. induction a as [|x a IH]; simpl; [reflexivity|rewrite IH; reflexivity]. Qed.

Record reads (t : table) (fs : string -> fileres) (s f : cstate) (items : list item) : Prop := {
  r_code : c_code f = c_code s ++ items_code fs items;
  r_opt : c_opt f = last_opt items (c_opt s);
  r_bits : c_bits f = last_bits items (c_bits s);
  r_kind : c_kind f = last_kind items (c_kind s);
  r_limit : c_limit f = last_limit items (c_limit s);
  r_safe : c_safe f = c_safe s && negb (any_static items);
  r_help : c_help f = c_help s || any_help items;
  r_err : c_err f = c_err s || any_file_error fs items
}.

Lemma run_reads : forall t fs args s,
  reads t fs s (fold_left (cli_step t fs) args s) (classify t args (c_nfile s) (c_nlimit s)).
Proof.
  intros t fs. induction args as [|a r IH]; intros s.
  - simpl. constructor; simpl; rewrite ?app_nil_s, ?andb_true_r, ?orb_false_r; reflexivity.
  - cbn [fold_left classify]. unfold cli_step at 2. unfold with_code.
    destruct (c_nfile s) eqn:NF.
    + (* file operand *)
      destruct (fs a) as [content|partial|] eqn:F;
        match goal with |- reads _ _ _ (fold_left _ _ ?s1) _ => specialize (IH s1) end;
        simpl in IH; destruct IH as [I1 I2 I3 I4 I5 I6 I7 I8]; simpl in I1, I2, I3, I4, I5, I6, I7, I8;
        constructor; simpl; rewrite ?F;
        try (rewrite I1, app_assoc_s; reflexivity); try assumption;
        try (rewrite I8; simpl; rewrite ?orb_false_r, ?orb_true_r, <- ?orb_assoc; reflexivity).
      all: try (rewrite I1; simpl; reflexivity).
    + destruct (c_nlimit s) eqn:NL.
      * (* limit operand *)
        destruct (parse_usize a) as [v|] eqn:P;
          match goal with |- reads _ _ _ (fold_left _ _ ?s1) _ => specialize (IH s1) end;
          simpl in IH; rewrite ?NF in IH; destruct IH as [I1 I2 I3 I4 I5 I6 I7 I8]; simpl in I1, I2, I3, I4, I5, I6, I7, I8;
          constructor; simpl; rewrite ?P, ?NF, ?NL; try assumption;
          try (rewrite I8; rewrite ?orb_false_r; reflexivity).
      * destruct (lookup t a) as [act|] eqn:L.
        -- destruct act;
             match goal with |- reads _ _ _ (fold_left _ _ ?s1) _ => specialize (IH s1) end;
             simpl in IH; rewrite ?NF, ?NL in IH; destruct IH as [I1 I2 I3 I4 I5 I6 I7 I8]; simpl in I1, I2, I3, I4, I5, I6, I7, I8;
             constructor; simpl; rewrite ?NF, ?NL; try assumption;
             try (rewrite I6; simpl; rewrite ?andb_false_r, ?andb_false_l; reflexivity);
             try (rewrite I7; simpl; rewrite ?orb_true_r, ?orb_true_l; reflexivity).
        -- match goal with |- reads _ _ _ (fold_left _ _ ?s1) _ => specialize (IH s1) end.
           simpl in IH. rewrite ?NF, ?NL in IH. destruct IH as [I1 I2 I3 I4 I5 I6 I7 I8]. simpl in I1, I2, I3, I4, I5, I6, I7, I8.
           constructor; simpl; rewrite ?NF, ?NL; try assumption.
           ++ rewrite I1, app_assoc_s. reflexivity.
           ++ rewrite I8, orb_false_r. reflexivity.
Qed.

(** the program text is the in-order concatenation of file contents and bare arguments, for
    every interleaving with flags *)
Theorem code_concat : forall t d fs args,
  c_code (cli_run t d fs args) = items_code fs (classify t args false false).
Proof. intros. unfold cli_run. destruct (run_reads t fs args (cstate0 d)) as [H _ _ _ _ _ _ _]. exact H. Qed.

(** the last flag of each class wins; defaults otherwise *)
Theorem last_wins : forall t d fs args,
  let items := classify t args false false in
  let f := cli_run t d fs args in
  c_opt f = last_opt items (d_opt d) /\ c_bits f = last_bits items (d_bits d) /\ c_kind f = last_kind items (d_kind d)
  /\ c_limit f = last_limit items None /\ c_safe f = negb (any_static items)
  /\ c_help f = any_help items /\ c_err f = any_file_error fs items.
Proof.
  intros. unfold f, cli_run. destruct (run_reads t fs args (cstate0 d)) as [_ H2 H3 H4 H5 H6 H7 H8].
  repeat split; assumption.
Qed.

(** exit status and what is run *)
Theorem decide_spec : forall t d fs args,
  let items := classify t args false false in
  let f := cli_run t d fs args in
  decide spec_widths f =
    if any_help items then DHelp (if any_file_error fs items then 1 else 0)
    else if any_file_error fs items then DNothing 1
    else match find (fun p => Z.eqb (fst p) (last_bits items (d_bits d))) spec_widths with
         | None => DPanic
         | Some (_, w) =>
             match last_limit items None with
             | Some l => DRun w (last_kind items (d_kind d)) (last_opt items (d_opt d)) "limited" l (items_code fs items)
             | None => DRun w (last_kind items (d_kind d)) (last_opt items (d_opt d))
                         (if negb (any_static items) then "checked" else "static") 0 (items_code fs items)
             end
         end.
Proof.
  intros. unfold decide.
  destruct (last_wins t d fs args) as [H2 [H3 [H4 [H5 [H6 [H7 H8]]]]]].
  fold f in H2, H3, H4, H5, H6, H7, H8. fold items in H2, H3, H4, H5, H6, H7, H8.
  rewrite H7, H8, H3, H5, H4, H2, H6. unfold f. rewrite code_concat. reflexivity.
Qed.

(** with the specified table, only the four widths are reachable: no panic *)
Theorem no_width_panic : forall fs args,
  decide spec_widths (cli_run spec_table spec_defaults fs args) <> DPanic.
Proof.
  intros fs args.
  assert (G : forall args s, (c_bits s = 8 \/ c_bits s = 16 \/ c_bits s = 32 \/ c_bits s = 64)%Z ->
              let f := fold_left (cli_step spec_table fs) args s in
              (c_bits f = 8 \/ c_bits f = 16 \/ c_bits f = 32 \/ c_bits f = 64)%Z).
  { clear args. induction args as [|a r IH]; intros s H; simpl; [exact H|]. apply IH.
    unfold cli_step. destruct (c_nfile s).
    - destruct (fs a); simpl; exact H.
    - destruct (c_nlimit s).
      + destruct (parse_usize a); simpl; exact H.
      + destruct (lookup spec_table a) as [act|] eqn:L; [|simpl; exact H].
        destruct act; simpl; try exact H.
        (* ASetBits n: n comes from the table *)
        simpl in L.
        repeat match type of L with
               | (if ?c then _ else _) = _ => destruct c; [try discriminate; injection L as <-; tauto|]
               end. discriminate. }
  specialize (G args (cstate0 spec_defaults) ltac:(left; reflexivity)).
  unfold cli_run, decide. simpl in G.
  destruct (c_help _); [discriminate|]. destruct (c_err _); [discriminate|].
  destruct G as [E|[E|[E|E]]]; rewrite E; simpl; destruct (c_limit _); discriminate.
Qed.

(** * X86CallProofs.v — soundness of the provenance evaluator and of [call_ok] for the runtime-call
    templates of the baseline JIT (properties C03 / C08: I/O instructions). *)
From Coq Require Import ZArith List Bool Lia.
From HPBF Require Import BC X86 X86Call.
Import ListNotations.
Open Scope Z_scope.

Section Sound.
Variable w : Z.
Variable oracle : Z -> Z.
Variable st0 : kst.

Definition vden (v : kval) : option Z :=
  match v with
  | VInit r => Some (kr st0 r)
  | VCell k => Some (kc st0 k)
  | VRet r => Some (oracle r)
  | VImm c => Some c
  | VJunk => None
  end.

Fixpoint kfind (k : Z) (l : list (Z * kval)) : option kval :=
  match l with [] => None | (k', v) :: l' => if k' =? k then Some v else kfind k l' end.

Definition known (v : kval) (x : Z) : Prop := forall x', vden v = Some x' -> x = x'.

Record Agr (st : kst) (y : ksym) : Prop := {
  a_regs : forall r, known (yget y r) (kr st r);
  a_stack : Forall2 known (yk y) (kk st);
  a_cells : forall k, match kfind k (ystore y) with
                      | None => kc st k = kc st0 k
                      | Some v => forall x, vden v = Some x -> kc st k = x mod 2 ^ w
                      end;
  a_calls : Forall2 (fun vv xx => known (fst vv) (fst xx) /\ known (snd vv) (snd xx)) (ycalls y) (kcalls st);
  a_test : match ytest y with
           | TNone => True
           | TTest8 v => forall x, vden v = Some x -> kzf st = (x mod 256 =? 0)
           | TCmp64 v c => forall x, vden v = Some x -> kzf st = (x =? c)
           end;
  a_nocall : ycalled y = false -> kcalls st = [] /\ ycalls y = []
}.

Hypothesis H0k : kk st0 = [].
Hypothesis H0c : kcalls st0 = [].

Lemma agr0 : Agr st0 ksym0.
Proof.
  constructor; cbn.
  - intros r x' H. injection H as <-. reflexivity.
  - rewrite H0k. constructor.
  - intros k. reflexivity.
  - rewrite H0c. constructor.
  - exact I.
  - intros _. split; [exact H0c|reflexivity].
Qed.

Lemma yget_yset : forall y r v r', yget (yset y r v) r' = if r =? r' then v else yget y r'.
Proof. reflexivity. Qed.

Lemma klook_app_havoc : forall (l : list Z) rest r d,
  klook r (map (fun r0 => (r0, VRet r0)) l ++ rest) d = if existsb (Z.eqb r) l then VRet r else klook r rest d.
Proof.
  induction l as [|x l IH]; intros rest r d; [reflexivity|]. cbn [map app klook existsb].
  rewrite (Z.eqb_sym r x). destruct (x =? r) eqn:E; [apply Z.eqb_eq in E; subst; reflexivity|]. cbn [orb]. apply IH.
Qed.

Lemma existsb_kfind : forall k l, existsb (fun kv : Z * kval => fst kv =? k) l = false -> kfind k l = None.
Proof.
  intros k l. induction l as [|[k' v] l IH]; intros H; [reflexivity|]. cbn in *.
  destruct (k' =? k); [discriminate|]. apply IH. exact H.
Qed.

(** every instruction the evaluator accepts preserves the agreement, whether or not the jump is taken *)
Lemma ystep_sound : forall st y i y', Agr st y -> ystep y i = Some y' -> Agr (fst (kstep w oracle st i)) y'.
Proof.
  intros st y i y' A H. destruct A as [AR AK AC AL AT AN].
  destruct i as [r|r| | |d s|d k|d c|t|r|r c|kc0| | |k r]; cbn [ystep kstep fst] in *; try discriminate.
  - injection H as <-. constructor; cbn; try assumption. constructor; [apply AR|exact AK].
  - destruct (pinned r); [discriminate|]. destruct (yk y) as [|v k'] eqn:YK; [discriminate|]. injection H as <-.
    inversion AK as [|v' x l l' KV KR E1 E2]; subst. cbn [fst]. constructor; cbn; try assumption.
    intros r'. unfold yget. cbn [yr klook]. unfold upd. rewrite (Z.eqb_sym r' r). destruct (r =? r'); [exact KV|apply AR].
  - injection H as <-. constructor; cbn; try assumption. constructor; [intros x' H; discriminate|exact AK].
  - destruct (yk y) as [|v k'] eqn:YK; [discriminate|]. injection H as <-.
    inversion AK as [|v' x l l' KV KR E1 E2]; subst. constructor; cbn; try assumption; try (rewrite <- E2; exact KR).
  - destruct (pinned d); [discriminate|]. injection H as <-. constructor; cbn; try assumption.
    intros r'. unfold upd. rewrite (Z.eqb_sym r' d). destruct (d =? r'); [apply AR|apply AR].
  - destruct (pinned d); [discriminate|]. destruct (existsb _ (ystore y)) eqn:EX; [discriminate|]. injection H as <-.
    constructor; cbn; try assumption.
    intros r'. unfold upd. rewrite (Z.eqb_sym r' d). destruct (d =? r'); [|apply AR].
    intros x' Hx. cbn in Hx. injection Hx as <-. pose proof (AC k) as CK. rewrite (existsb_kfind _ _ EX) in CK. exact CK.
  - destruct (pinned d); [discriminate|]. injection H as <-. constructor; cbn; try assumption.
    intros r'. unfold upd. rewrite (Z.eqb_sym r' d). destruct (d =? r'); [|apply AR].
    intros x' Hx. cbn in Hx. injection Hx as <-. reflexivity.
  - destruct (ycalled y || negb (Nat.even (length (yk y)))) eqn:E; [discriminate|]. injection H as <-.
    apply orb_false_iff in E. destruct E as [E1 _].
    constructor; cbn [kr kc kk kcalls kzf yr yk ystore ycalls ytest ycalled yexit]; try assumption.
    + intros r. unfold yget. cbn [yr].
      change ((0, VRet 0) :: (1, VRet 1) :: (2, VRet 2) :: (6, VRet 6) :: (7, VRet 7) :: (8, VRet 8) :: (9, VRet 9) :: (10, VRet 10) :: (11, VRet 11) :: yr y)
        with (map (fun r0 => (r0, VRet r0)) [0; 1; 2; 6; 7; 8; 9; 10; 11] ++ yr y).
      rewrite klook_app_havoc. unfold caller_saved.
      destruct (existsb (Z.eqb r) [0; 1; 2; 6; 7; 8; 9; 10; 11]); [intros x' Hx; cbn in Hx; injection Hx as <-; reflexivity|apply AR].
    + destruct (AN E1) as [KC _]. rewrite KC. cbn. constructor; [split; apply AR|constructor].
    + intros Hc. discriminate.
  - injection H as <-. constructor; cbn; try assumption.
    intros x Hx. rewrite (AR r x Hx). reflexivity.
  - injection H as <-. constructor; cbn; try assumption.
    intros x Hx. rewrite (AR r x Hx). reflexivity.
  - destruct (yexit y); [discriminate|]. destruct (yk y); [|discriminate]. destruct (negb (ycalled y)); [discriminate|].
    injection H as <-. constructor; cbn; assumption.
  - destruct (yexit y); [discriminate|]. destruct (yk y); [|discriminate]. destruct (negb (ycalled y)); [discriminate|].
    injection H as <-. constructor; cbn; assumption.
  - destruct (yexit y); [|discriminate]. injection H as <-. constructor; cbn; try assumption.
    intros k'. cbn [kfind]. unfold upd. rewrite (Z.eqb_sym k' k). destruct (k =? k').
    + intros x Hx. rewrite (AR r x Hx). reflexivity.
    + apply AC.
Qed.

(** ** runs *)
Definition is_jump (i : kins) : bool := match i with KJe | KJne => true | _ => false end.
Definition nojump (code : list kins) : bool := forallb (fun i => negb (is_jump i)) code.

Lemma kstep_nojump : forall st i, is_jump i = false -> snd (kstep w oracle st i) = false.
Proof. intros st i H. destruct i; try discriminate; cbn; try reflexivity. destruct (kk st); reflexivity. Qed.

Lemma krun_cons : forall i rest st,
  krun w oracle (i :: rest) st =
  if snd (kstep w oracle st i) then (fst (kstep w oracle st i), true) else krun w oracle rest (fst (kstep w oracle st i)).
Proof. intros. cbn [krun]. destruct (kstep w oracle st i) as [st' ex]. reflexivity. Qed.

Lemma run_nojump : forall code st y y', nojump code = true -> Agr st y -> yrun code y = Some y' ->
  snd (krun w oracle code st) = false /\ Agr (fst (krun w oracle code st)) y'.
Proof.
  induction code as [|i code IH]; intros st y y' NJ A H.
  - cbn in *. injection H as <-. split; [reflexivity|exact A].
  - cbn [nojump forallb] in NJ. apply andb_prop in NJ. destruct NJ as [N1 N2]. apply negb_true_iff in N1.
    cbn [yrun] in H. destruct (ystep y i) as [y1|] eqn:YS; [|discriminate].
    rewrite krun_cons, (kstep_nojump st i N1). apply (IH _ y1 y' N2 (ystep_sound st y i y1 A YS) H).
Qed.

Lemma yrun_app : forall a b y, yrun (a ++ b) y = match yrun a y with Some y1 => yrun b y1 | None => None end.
Proof.
  induction a as [|i a IH]; intros b y; [reflexivity|]. cbn [app yrun]. destruct (ystep y i); [apply IH|reflexivity].
Qed.

Lemma krun_app : forall a b st, snd (krun w oracle a st) = false ->
  krun w oracle (a ++ b) st = krun w oracle b (fst (krun w oracle a st)).
Proof.
  induction a as [|i a IH]; intros b st H; [reflexivity|]. cbn [app]. rewrite krun_cons in H. rewrite !krun_cons.
  destruct (snd (kstep w oracle st i)); [discriminate|]. apply IH. exact H.
Qed.

(** facts about the evaluator's bookkeeping *)
Lemma ystep_exit_stays : forall y i y' e, yexit y = Some e -> ystep y i = Some y' -> yexit y' = Some e /\ is_jump i = false.
Proof.
  intros y i y' e E H. destruct i; cbn [ystep] in H; rewrite ?E in H;
    repeat match type of H with
           | (if ?c then _ else _) = _ => destruct c
           | match ?c with _ => _ end = _ => destruct c
           end; try discriminate; injection H as <-; cbn; split; try exact E; reflexivity.
Qed.

Lemma yrun_exit_stays : forall code y y' e, yexit y = Some e -> yrun code y = Some y' -> yexit y' = Some e /\ nojump code = true.
Proof.
  induction code as [|i code IH]; intros y y' e E H; [cbn in *; injection H as <-; split; [exact E|reflexivity]|].
  cbn [yrun] in H. destruct (ystep y i) as [y1|] eqn:YS; [|discriminate].
  destruct (ystep_exit_stays y i y1 e E YS) as [E1 NJ]. destruct (IH y1 y' e E1 H) as [E2 NJ2].
  split; [exact E2|]. cbn [nojump forallb]. rewrite NJ. exact NJ2.
Qed.

Lemma ystep_called_stays : forall y i y', ycalled y = true -> ystep y i = Some y' -> ycalled y' = true /\ ycalls y' = ycalls y.
Proof.
  intros y i y' E H. destruct i; cbn [ystep] in H; rewrite ?E in H; cbn [orb] in H;
    repeat match type of H with
           | (if ?c then _ else _) = _ => destruct c
           | match ?c with _ => _ end = _ => destruct c
           end; try discriminate; injection H as <-; cbn; split; try exact E; reflexivity.
Qed.

Lemma yrun_called_stays : forall code y y', ycalled y = true -> yrun code y = Some y' -> ycalled y' = true /\ ycalls y' = ycalls y.
Proof.
  induction code as [|i code IH]; intros y y' E H; [cbn in *; injection H as <-; split; [exact E|reflexivity]|].
  cbn [yrun] in H. destruct (ystep y i) as [y1|] eqn:YS; [|discriminate].
  destruct (ystep_called_stays y i y1 E YS) as [E1 C1]. destruct (IH y1 y' E1 H) as [E2 C2].
  split; [exact E2|congruence].
Qed.

Lemma ystep_noexit_nostore : forall y i y', yexit y = None -> ystore y = [] -> is_jump i = false ->
  ystep y i = Some y' -> yexit y' = None /\ ystore y' = [].
Proof.
  intros y i y' E S NJ H.
  destruct i as [r|r| | |d s|d k|d c|t|r|r c|kc0| | |k r]; try discriminate; cbn [ystep] in H.
  - injection H as <-. split; assumption.
  - destruct (pinned r); [discriminate|]. destruct (yk y); [discriminate|]. injection H as <-. split; assumption.
  - injection H as <-. split; assumption.
  - destruct (yk y); [discriminate|]. injection H as <-. split; assumption.
  - destruct (pinned d); [discriminate|]. injection H as <-. split; assumption.
  - destruct (pinned d); [discriminate|]. destruct (existsb _ (ystore y)); [discriminate|]. injection H as <-. split; assumption.
  - destruct (pinned d); [discriminate|]. injection H as <-. split; assumption.
  - destruct (ycalled y || negb (Nat.even (length (yk y)))); [discriminate|]. injection H as <-. split; assumption.
  - injection H as <-. split; assumption.
  - injection H as <-. split; assumption.
  - rewrite E in H. discriminate.
Qed.

Lemma yrun_noexit_nostore : forall code y y', yexit y = None -> ystore y = [] -> nojump code = true ->
  yrun code y = Some y' -> yexit y' = None /\ ystore y' = [].
Proof.
  induction code as [|i code IH]; intros y y' E S NJ H; [cbn in *; injection H as <-; split; assumption|].
  cbn [nojump forallb] in NJ. apply andb_prop in NJ. destruct NJ as [N1 N2]. apply negb_true_iff in N1.
  cbn [yrun] in H. destruct (ystep y i) as [y1|] eqn:YS; [|discriminate].
  destruct (ystep_noexit_nostore y i y1 E S N1 YS) as [E1 S1]. apply (IH y1 y' E1 S1 N2 H).
Qed.

(** the code up to its first jump *)
Fixpoint split_jump (code : list kins) : option (list kins * kins * list kins) :=
  match code with
  | [] => None
  | i :: rest => if is_jump i then Some ([], i, rest)
                 else match split_jump rest with Some (p, j, q) => Some (i :: p, j, q) | None => None end
  end.

Lemma split_jump_some : forall code p j q, split_jump code = Some (p, j, q) ->
  code = p ++ j :: q /\ nojump p = true /\ is_jump j = true.
Proof.
  induction code as [|i code IH]; intros p j q H; [discriminate|]. cbn [split_jump] in H.
  destruct (is_jump i) eqn:J.
  - injection H as <- <- <-. split; [reflexivity|split; [reflexivity|exact J]].
  - destruct (split_jump code) as [[[p' j'] q']|] eqn:S; [|discriminate]. injection H as <- <- <-.
    destruct (IH p' j' q' eq_refl) as (E & N & JJ). split; [cbn; rewrite E; reflexivity|].
    split; [cbn [nojump forallb]; rewrite J; exact N|exact JJ].
Qed.

Lemma split_jump_none : forall code, split_jump code = None -> nojump code = true.
Proof.
  induction code as [|i code IH]; intros H; [reflexivity|]. cbn [split_jump] in H. destruct (is_jump i) eqn:J; [discriminate|].
  destruct (split_jump code) as [[[p j] q]|]; [discriminate|]. cbn [nojump forallb]. rewrite J. apply IH. reflexivity.
Qed.

(** anatomy of an accepted template with a conditional exit *)
Lemma template_shape : forall code y isje t, yrun code ksym0 = Some y -> yexit y = Some (isje, t) ->
  exists pre j post y1 y2, code = pre ++ j :: post /\ nojump pre = true /\ nojump post = true /\
    yrun pre ksym0 = Some y1 /\ ystep y1 j = Some y2 /\ yrun post y2 = Some y /\
    j = (if isje then KJe else KJne) /\ ytest y1 = t /\ yk y1 = [] /\ ycalled y1 = true /\ ystore y1 = [] /\
    ycalls y = ycalls y1.
Proof.
  intros code y isje t H E.
  destruct (split_jump code) as [[[pre j] post]|] eqn:S.
  - destruct (split_jump_some _ _ _ _ S) as (EC & NP & JJ). subst code.
    rewrite yrun_app in H. destruct (yrun pre ksym0) as [y1|] eqn:R1; [|discriminate].
    cbn [yrun] in H. destruct (ystep y1 j) as [y2|] eqn:SJ; [|discriminate].
    destruct (yrun_noexit_nostore pre ksym0 y1 eq_refl eq_refl NP R1) as [E1 S1].
    assert (J2 : yexit y2 = Some (match j with KJe => true | _ => false end, ytest y1) /\ yk y1 = [] /\ ycalled y1 = true /\
                 ycalled y2 = true /\ ycalls y2 = ycalls y1).
    { destruct j; try discriminate; cbn [ystep] in SJ; rewrite E1 in SJ; destruct (yk y1); try discriminate;
        destruct (ycalled y1) eqn:YC; try discriminate; cbn in SJ; injection SJ as <-; cbn; repeat split; reflexivity. }
    destruct J2 as (E2 & K1 & C1 & C2 & L2).
    destruct (yrun_exit_stays post y2 y _ E2 H) as [E3 NQ].
    destruct (yrun_called_stays post y2 y C2 H) as [_ L3].
    rewrite E in E3. injection E3 as EJ ET.
    exists pre, j, post, y1, y2. repeat split; try assumption; try congruence.
    destruct j; try discriminate; cbn in EJ; subst isje; reflexivity.
  - exfalso. pose proof (split_jump_none code S) as NJ.
    destruct (yrun_noexit_nostore code ksym0 y eq_refl eq_refl NJ H) as [E1 _]. congruence.
Qed.

(** the concrete run of such a template *)
Lemma template_run : forall pre j post y1 y2 y, nojump pre = true -> nojump post = true ->
  yrun pre ksym0 = Some y1 -> ystep y1 j = Some y2 -> yrun post y2 = Some y -> is_jump j = true ->
  let st1 := fst (krun w oracle pre st0) in
  Agr st1 y1 /\
  krun w oracle (pre ++ j :: post) st0 =
    (if snd (kstep w oracle st1 j) then (st1, true) else (fst (krun w oracle post st1), false)) /\
  (snd (kstep w oracle st1 j) = false -> Agr (fst (krun w oracle post st1)) y).
Proof.
  intros pre j post y1 y2 y NP NQ R1 SJ R2 JJ st1.
  destruct (run_nojump pre st0 ksym0 y1 NP agr0 R1) as [X1 A1]. fold st1 in A1.
  split; [exact A1|]. split.
  - rewrite (krun_app pre (j :: post) st0 X1). fold st1. rewrite krun_cons.
    assert (FS : fst (kstep w oracle st1 j) = st1) by (destruct j; try discriminate; reflexivity).
    rewrite FS. destruct (snd (kstep w oracle st1 j)); [reflexivity|].
    destruct (krun w oracle post st1) as [st2 ex2] eqn:KR. cbn [fst].
    pose proof (run_nojump post st1 y2 y NQ) as RN. rewrite KR in RN. cbn [snd fst] in RN.
    assert (A2 : Agr st1 y2) by (rewrite <- FS; apply (ystep_sound st1 y1 j y2 A1 SJ)).
    destruct (RN A2 R2) as [X2 _]. subst ex2. reflexivity.
  - intros _. assert (FS : fst (kstep w oracle st1 j) = st1) by (destruct j; try discriminate; reflexivity).
    assert (A2 : Agr st1 y2) by (rewrite <- FS; apply (ystep_sound st1 y1 j y2 A1 SJ)).
    apply (run_nojump post st1 y2 y NQ A2 R2).
Qed.

(** ** the checker *)
Lemma kval_eqb_eq : forall a b, kval_eqb a b = true -> a = b.
Proof. intros [x|x|x|x|] [y|y|y|y|] H; cbn in H; try discriminate; apply Z.eqb_eq in H; subst; reflexivity. Qed.

Lemma must_keep_range : forall live r, must_keep live r = true ->
  List.In r [0; 1; 2; 3; 4; 5; 6; 7; 8; 9; 10; 11; 12; 13; 14; 15].
Proof.
  intros live r H. unfold must_keep in H. apply orb_prop in H. destruct H as [H|H].
  - unfold pinned in H. repeat (apply orb_prop in H; destruct H as [H|H]); apply Z.eqb_eq in H; subst;
      cbn [List.In]; repeat (first [left; reflexivity | right]).
  - apply existsb_exists in H. destruct H as (t & HT & H).
    cbn [List.In] in HT.
    repeat (destruct HT as [<-|HT];
            [vm_compute tmp_reg in H; apply andb_prop in H; destruct H as [H _]; apply Z.eqb_eq in H; subst;
             cbn [List.In]; repeat (first [left; reflexivity | right])|]).
    contradiction.
Qed.

Lemma restored : forall live y st r, regs_restored live y = true -> Agr st y -> must_keep live r = true -> kr st r = kr st0 r.
Proof.
  intros live y st r H A MK. unfold regs_restored in H. rewrite forallb_forall in H.
  specialize (H r (must_keep_range live r MK)). rewrite MK in H. cbn [negb orb] in H.
  apply kval_eqb_eq in H. pose proof (a_regs st y A r) as K. rewrite H in K. apply K. reflexivity.
Qed.

Lemma stack_empty : forall st y, Agr st y -> yk y = [] -> kk st = [].
Proof. intros st y A H. pose proof (a_stack st y A) as F. rewrite H in F. inversion F. reflexivity. Qed.

Lemma one_call : forall st y v1 v2, Agr st y -> ycalls y = [(v1, v2)] ->
  exists a1 a2, kcalls st = [(a1, a2)] /\ known v1 a1 /\ known v2 a2.
Proof.
  intros st y v1 v2 A H. pose proof (a_calls st y A) as F. rewrite H in F.
  inversion F as [|vv xx l l' P Q E1 E2]; subst. inversion Q; subst. destruct xx as [a1 a2]. destruct P as [P1 P2].
  exists a1, a2. split; [reflexivity|split; assumption].
Qed.

(** branches *)
Theorem br_ok_sound : forall i code st, br_ok i code = true ->
  fst (krun w oracle code st) = {| kr := kr st; kc := kc st; kk := kk st; kcalls := kcalls st;
                                    kzf := match i with BrZ c _ | BrNZ c _ => (kc st c =? 0) | _ => kzf st end |} /\
  snd (krun w oracle code st) =
    match i with BrZ c _ => (kc st c =? 0) | BrNZ c _ => negb (kc st c =? 0) | _ => false end.
Proof.
  intros i code st H. destruct i as [| | | | |c off|c off| | | |]; try discriminate;
    destruct code as [|[| | | | | | | | | |k| | |] [|[| | | | | | | | | | | | |] [|x l]]]; try discriminate;
    cbn [br_ok] in H; apply Z.eqb_eq in H; subst k; cbn [krun kstep fst snd].
  - destruct (kc st c =? 0); split; reflexivity.
  - destruct (kc st c =? 0); split; reflexivity.
Qed.

(** input: [Inp dst] *)
Theorem call_ok_inp : forall dst live code, call_ok (Inp dst) live code = true ->
  let st' := fst (krun w oracle code st0) in
  let ex := snd (krun w oracle code st0) in
  (exists a2, kcalls st' = [(kr st0 3, a2)]) /\ ex = (oracle 0 =? U64M1) /\ kk st' = [] /\
  (ex = true -> forall k, kc st' k = kc st0 k) /\
  (ex = false -> (forall r, must_keep live r = true -> kr st' r = kr st0 r) /\
                 (forall k, kc st' k = if k =? dst then oracle 0 mod 2 ^ w else kc st0 k)).
Proof.
  intros dst live code H. unfold call_ok in H.
  destruct (yrun code ksym0) as [y|] eqn:YR; [|discriminate].
  apply andb_prop in H. destruct H as [H HM]. apply andb_prop in H. destruct H as [H HR].
  apply andb_prop in H. destruct H as [HK HC].
  destruct (yk y) eqn:YK; [|discriminate].
  apply andb_prop in HM. destruct HM as [HM HS]. apply andb_prop in HM. destruct HM as [HL HE].
  destruct (ycalls y) as [|[v1 v2] [|c2 cs]] eqn:YC; try discriminate. apply kval_eqb_eq in HL. subst v1.
  destruct (yexit y) as [[isje t]|] eqn:YE; [|discriminate]. destruct isje; [|discriminate].
  destruct t as [|v|v c]; try discriminate. apply andb_prop in HE. destruct HE as [HE1 HE2].
  apply kval_eqb_eq in HE1. apply Z.eqb_eq in HE2. subst v c.
  destruct (ystore y) as [|[k v] [|s2 ss]] eqn:YS; try discriminate. apply andb_prop in HS. destruct HS as [HS1 HS2].
  apply Z.eqb_eq in HS1. apply kval_eqb_eq in HS2. subst k v.
  destruct (template_shape code y true _ YR YE) as (pre & j & post & y1 & y2 & EC & NP & NQ & R1 & SJ & R2 & EJ & ET & K1 & C1 & S1 & L1).
  subst j code.
  destruct (template_run pre KJe post y1 y2 y NP NQ R1 SJ R2 eq_refl) as (A1 & KR & A2).
  set (st1 := fst (krun w oracle pre st0)) in *.
  assert (ZF : kzf st1 = (oracle 0 =? U64M1)).
  { pose proof (a_test st1 y1 A1) as T. rewrite ET in T. apply T. reflexivity. }
  cbv zeta. rewrite KR. cbn [kstep snd]. rewrite ZF.
  destruct (oracle 0 =? U64M1) eqn:EX; cbn [fst snd].
  - split; [|split; [reflexivity|split; [apply (stack_empty st1 y1 A1 K1)|split; [|intros D; discriminate]]]].
    + try rewrite YC in L1. destruct (one_call st1 y1 _ _ A1 (eq_sym L1)) as (a1 & a2 & E & P1 & _). exists a2. rewrite E, (P1 (kr st0 3) eq_refl). reflexivity.
    + intros _ k. pose proof (a_cells st1 y1 A1 k) as CK. rewrite S1 in CK. exact CK.
  - specialize (A2 (eq_trans (f_equal negb (eq_refl)) (eq_refl))) || idtac.
    assert (A2' : Agr (fst (krun w oracle post st1)) y) by (apply A2; cbn; rewrite ZF; reflexivity).
    set (st2 := fst (krun w oracle post st1)) in *.
    split; [|split; [reflexivity|split; [apply (stack_empty st2 y A2' YK)|split; [intros D; discriminate|intros _; split]]]].
    + destruct (one_call st2 y _ _ A2' YC) as (a1 & a2 & E & P1 & _). exists a2. rewrite E, (P1 (kr st0 3) eq_refl). reflexivity.
    + intros r MK. apply (restored live y st2 r HR A2' MK).
    + intros k. pose proof (a_cells st2 y A2' k) as CK. rewrite YS in CK. cbn [kfind] in CK. rewrite (Z.eqb_sym k dst).
      destruct (dst =? k); [apply CK; reflexivity|exact CK].
Qed.

(** output: [Outp src] *)
Theorem call_ok_out : forall src live code, call_ok (Outp src) live code = true ->
  let st' := fst (krun w oracle code st0) in
  let ex := snd (krun w oracle code st0) in
  kcalls st' = [(kr st0 3, kc st0 src)] /\ ex = negb (oracle 0 mod 256 =? 0) /\ kk st' = [] /\
  (forall k, kc st' k = kc st0 k) /\
  (ex = false -> forall r, must_keep live r = true -> kr st' r = kr st0 r).
Proof.
  intros src live code H. unfold call_ok in H.
  destruct (yrun code ksym0) as [y|] eqn:YR; [|discriminate].
  apply andb_prop in H. destruct H as [H HM]. apply andb_prop in H. destruct H as [H HR].
  apply andb_prop in H. destruct H as [HK HC].
  destruct (yk y) eqn:YK; [|discriminate].
  apply andb_prop in HM. destruct HM as [HM HS]. apply andb_prop in HM. destruct HM as [HL HE].
  destruct (ycalls y) as [|[v1 v2] [|c2 cs]] eqn:YC; try discriminate. apply andb_prop in HL. destruct HL as [HL1 HL2].
  apply kval_eqb_eq in HL1. apply kval_eqb_eq in HL2. subst v1 v2.
  destruct (yexit y) as [[isje t]|] eqn:YE; [|discriminate]. destruct isje; [discriminate|].
  destruct t as [|v|v c]; try discriminate. apply kval_eqb_eq in HE. subst v.
  destruct (ystore y) as [|s1 ss] eqn:YS; [|discriminate].
  destruct (template_shape code y false _ YR YE) as (pre & j & post & y1 & y2 & EC & NP & NQ & R1 & SJ & R2 & EJ & ET & K1 & C1 & S1 & L1).
  subst j code.
  destruct (template_run pre KJne post y1 y2 y NP NQ R1 SJ R2 eq_refl) as (A1 & KR & A2).
  set (st1 := fst (krun w oracle pre st0)) in *.
  assert (ZF : kzf st1 = (oracle 0 mod 256 =? 0)).
  { pose proof (a_test st1 y1 A1) as T. rewrite ET in T. apply T. reflexivity. }
  cbv zeta. rewrite KR. cbn [kstep snd]. rewrite ZF.
  destruct (oracle 0 mod 256 =? 0) eqn:EX; cbn [fst snd negb].
  - assert (A2' : Agr (fst (krun w oracle post st1)) y) by (apply A2; cbn; rewrite ZF; reflexivity).
    set (st2 := fst (krun w oracle post st1)) in *.
    split; [|split; [reflexivity|split; [apply (stack_empty st2 y A2' YK)|split]]].
    + destruct (one_call st2 y _ _ A2' YC) as (a1 & a2 & E & P1 & P2). rewrite E, (P1 (kr st0 3) eq_refl), (P2 (kc st0 src) eq_refl). reflexivity.
    + intros k. pose proof (a_cells st2 y A2' k) as CK. rewrite YS in CK. exact CK.
    + intros _ r MK. apply (restored live y st2 r HR A2' MK).
  - split; [|split; [reflexivity|split; [apply (stack_empty st1 y1 A1 K1)|split; [|intros D; discriminate]]]].
    + try rewrite YC in L1. destruct (one_call st1 y1 _ _ A1 (eq_sym L1)) as (a1 & a2 & E & P1 & P2). rewrite E, (P1 (kr st0 3) eq_refl), (P2 (kc st0 src) eq_refl). reflexivity.
    + intros k. pose proof (a_cells st1 y1 A1 k) as CK. rewrite S1 in CK. exact CK.
Qed.
End Sound.

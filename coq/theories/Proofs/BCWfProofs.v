(** * BCWfProofs.v — soundness of the bytecode well-formedness checker [BCWf.bc_wf] with respect
    to the path-based statements of property C11. *)
From Coq Require Import ZArith List Bool Lia FMapPositive.
From HPBF Require Import Cell IO BC BCWf.
Import ListNotations.
Open Scope Z_scope.

(** ** bit sets *)
Lemma bset_sub_spec : forall a b, bset_sub a b = true <-> (forall n, Z.testbit a n = true -> Z.testbit b n = true).
Proof.
  intros a b. unfold bset_sub. rewrite Z.eqb_eq. split.
  - intros H n Ha. assert (T : Z.testbit (Z.land a (Z.lnot b)) n = false) by (rewrite H; apply Z.bits_0).
    destruct (Z.ltb_spec n 0) as [Neg|Pos]; [rewrite Z.testbit_neg_r in Ha by exact Neg; discriminate|].
    rewrite Z.land_spec, Z.lnot_spec, Ha in T by exact Pos. cbn in T. apply negb_false_iff. exact T.
  - intros H. apply Z.bits_inj'. intros n Pos. rewrite Z.land_spec, Z.lnot_spec, Z.bits_0 by exact Pos.
    destruct (Z.testbit a n) eqn:Ha; [|reflexivity]. rewrite (H n Ha). reflexivity.
Qed.

Lemma testbit_lor : forall a b n, Z.testbit (Z.lor a b) n = Z.testbit a n || Z.testbit b n.
Proof. intros. apply Z.lor_spec. Qed.

(** ** indexing the code by program counter *)
Definition instr_at (code : list binstr) (pc : Z) : option binstr :=
  if pc <? 0 then None else nth_error code (Z.to_nat pc).

Lemma instr_at_cons : forall i rest pc, 0 <= pc ->
  instr_at (i :: rest) pc = if pc =? 0 then Some i else instr_at rest (pc - 1).
Proof.
  intros i rest pc P. unfold instr_at. destruct (pc <? 0) eqn:E; [apply Z.ltb_lt in E; lia|].
  destruct (pc =? 0) eqn:E0.
  - apply Z.eqb_eq in E0. subst pc. reflexivity.
  - apply Z.eqb_neq in E0. destruct (pc - 1 <? 0) eqn:E1; [apply Z.ltb_lt in E1; lia|].
    replace (Z.to_nat pc) with (S (Z.to_nat (pc - 1))) by lia. reflexivity.
Qed.

(** a pass that checks [chk pc i] for every instruction, written like the passes of BCWf.v *)
Lemma pass_spec : forall (chk : Z -> binstr -> bool) (pass : list binstr -> Z -> bool),
  (forall pc, pass [] pc = true) ->
  (forall i rest pc, pass (i :: rest) pc = chk pc i && pass rest (pc + 1)) ->
  forall code pc0, pass code pc0 = true ->
  forall pc i, instr_at code pc = Some i -> chk (pc0 + pc) i = true.
Proof.
  intros chk pass Hn Hc code. induction code as [|i0 rest IH]; intros pc0 H pc i HI.
  - unfold instr_at in HI. destruct (pc <? 0); [discriminate|]. destruct (Z.to_nat pc); discriminate.
  - assert (P : 0 <= pc) by (unfold instr_at in HI; destruct (pc <? 0) eqn:E; [discriminate|apply Z.ltb_ge in E; exact E]).
    rewrite Hc in H. apply andb_prop in H. destruct H as [H0 Hr].
    rewrite instr_at_cons in HI by exact P. destruct (pc =? 0) eqn:E0.
    + apply Z.eqb_eq in E0. subst pc. injection HI as <-. rewrite Z.add_0_r. exact H0.
    + replace (pc0 + pc) with ((pc0 + 1) + (pc - 1)) by lia. apply (IH (pc0 + 1) Hr (pc - 1) i HI).
Qed.

Lemma all_instr_ok_spec : forall p fuse len code pc0, all_instr_ok p fuse len pc0 code = true ->
  forall pc i, instr_at code pc = Some i -> instr_ok p fuse len (pc0 + pc) i = true.
Proof.
  intros p fuse len. apply (pass_spec (fun pc i => instr_ok p fuse len pc i) (fun code pc => all_instr_ok p fuse len pc code)); reflexivity.
Qed.

Lemma fwd_valid_spec : forall full inn code pc0, fwd_valid full code pc0 inn = true ->
  forall pc i, instr_at code pc = Some i ->
  forallb (fun s => bset_sub (aget inn full s) (Z.lor (aget inn full (pc0 + pc)) (defs i))) (succs (pc0 + pc) i) = true.
Proof.
  intros full inn.
  apply (pass_spec (fun pc i => forallb (fun s => bset_sub (aget inn full s) (Z.lor (aget inn full pc) (defs i))) (succs pc i))
                   (fun code pc => fwd_valid full code pc inn)); reflexivity.
Qed.

Lemma uses_defined_spec : forall full inn code pc0, uses_defined full code pc0 inn = true ->
  forall pc i, instr_at code pc = Some i -> bset_sub (uses i) (aget inn full (pc0 + pc)) = true.
Proof.
  intros full inn.
  apply (pass_spec (fun pc i => bset_sub (uses i) (aget inn full pc)) (fun code pc => uses_defined full code pc inn)); reflexivity.
Qed.

Definition out_of (lin : arr) (pc : Z) (i : binstr) : Z :=
  fold_left (fun acc s => Z.lor acc (aget lin 0 s)) (succs pc i) 0.

Lemma bwd_valid_spec : forall lin code pc0, bwd_valid code pc0 lin = true ->
  forall pc i, instr_at code pc = Some i ->
  bset_sub (Z.lor (uses i) (Z.land (out_of lin (pc0 + pc) i) (Z.lnot (defs i)))) (aget lin 0 (pc0 + pc)) = true.
Proof.
  intros lin.
  apply (pass_spec (fun pc i => bset_sub (Z.lor (uses i) (Z.land (out_of lin pc i) (Z.lnot (defs i)))) (aget lin 0 pc))
                   (fun code pc => bwd_valid code pc lin)); reflexivity.
Qed.

Lemma out_of_spec : forall lin pc i s t, List.In s (succs pc i) -> Z.testbit (aget lin 0 s) t = true ->
  Z.testbit (out_of lin pc i) t = true.
Proof.
  intros lin pc i s t HI HT. unfold out_of.
  assert (G : forall l acc, (Z.testbit acc t = true \/ List.In s l) ->
              Z.testbit (fold_left (fun acc s => Z.lor acc (aget lin 0 s)) l acc) t = true).
  { induction l as [|x l IH]; intros acc [A|B]; cbn [fold_left]; try exact A; try contradiction.
    - apply IH. left. rewrite testbit_lor, A. reflexivity.
    - destruct B as [->|B]; apply IH; [left; rewrite testbit_lor, HT; apply orb_true_r|right; exact B]. }
  apply G. right. exact HI.
Qed.

(** ** the path-based notions of the property *)
Section Paths.
Variable code : list binstr.

(** [written pc D]: some control-flow path from the entry reaches [pc] having written exactly the
    temporaries of [D] *)
Inductive written : Z -> Z -> Prop :=
| wr_entry : written 0 0
| wr_step : forall pc D i s, written pc D -> instr_at code pc = Some i -> List.In s (succs pc i) ->
    written s (Z.lor D (defs i)).

(** [needed t pc]: on some path from [pc] the value temporary [t] has at [pc] is read *)
Inductive needed (t : Z) : Z -> Prop :=
| nd_use : forall pc i, instr_at code pc = Some i -> Z.testbit (uses i) t = true -> needed t pc
| nd_pass : forall pc i s, instr_at code pc = Some i -> Z.testbit (defs i) t = false ->
    List.In s (succs pc i) -> needed t s -> needed t pc.

Lemma written_inn : forall full inn, aget inn full 0 = 0 -> fwd_valid full code 0 inn = true ->
  forall pc D, written pc D -> bset_sub (aget inn full pc) D = true.
Proof.
  intros full inn E0 V pc D W. induction W as [|pc D i s W IH HI HS].
  - rewrite E0. apply bset_sub_spec. intros n H. rewrite Z.bits_0 in H. discriminate.
  - pose proof (fwd_valid_spec full inn code 0 V pc i HI) as F. rewrite Z.add_0_l in F.
    rewrite forallb_forall in F. specialize (F s HS).
    apply bset_sub_spec. intros n Hn. rewrite bset_sub_spec in F, IH. specialize (F n Hn).
    rewrite testbit_lor in F |- *. apply orb_true_iff in F. destruct F as [F|F]; [rewrite (IH n F); reflexivity|rewrite F; apply orb_true_r].
Qed.

Lemma needed_lin : forall lin, bwd_valid code 0 lin = true ->
  forall t pc, needed t pc -> Z.testbit (aget lin 0 pc) t = true.
Proof.
  intros lin V t pc N. induction N as [pc i HI HU|pc i s HI HD HS N IH].
  - pose proof (bwd_valid_spec lin code 0 V pc i HI) as B. rewrite Z.add_0_l in B. rewrite bset_sub_spec in B.
    apply B. rewrite testbit_lor, HU. reflexivity.
  - pose proof (bwd_valid_spec lin code 0 V pc i HI) as B. rewrite Z.add_0_l in B. rewrite bset_sub_spec in B.
    apply B. rewrite testbit_lor.
    assert (T0 : 0 <= t) by (destruct (Z.ltb_spec t 0) as [Neg|Pos]; [rewrite Z.testbit_neg_r in IH by exact Neg; discriminate|exact Pos]).
    rewrite Z.land_spec, Z.lnot_spec, HD, (out_of_spec lin pc i s t HS IH) by exact T0. apply orb_true_r.
Qed.
End Paths.

Lemma live_ok_spec : forall num_regs lin code live pc0, live_ok num_regs code live pc0 lin = true ->
  forall pc i, instr_at code pc = Some i -> is_branch i = false ->
  exists l, nth_error live (Z.to_nat pc) = Some l /\
    bset_sub (Z.land (Z.land (out_of lin (pc0 + pc) i) (Z.lnot (defs i))) (reg_mask num_regs)) l = true.
Proof.
  intros num_regs lin code. induction code as [|i0 rest IH]; intros live pc0 H pc i HI NB.
  - unfold instr_at in HI. destruct (pc <? 0); [discriminate|]. destruct (Z.to_nat pc); discriminate.
  - assert (P : 0 <= pc) by (unfold instr_at in HI; destruct (pc <? 0) eqn:E; [discriminate|apply Z.ltb_ge in E; exact E]).
    destruct live as [|l0 lrest]; [discriminate|]. cbn [live_ok] in H. apply andb_prop in H. destruct H as [H0 Hr].
    rewrite instr_at_cons in HI by exact P. destruct (pc =? 0) eqn:E0.
    + apply Z.eqb_eq in E0. subst pc. injection HI as <-. rewrite NB in H0. exists l0. split; [reflexivity|].
      rewrite Z.add_0_r. exact H0.
    + apply Z.eqb_neq in E0. destruct (IH lrest (pc0 + 1) Hr (pc - 1) i HI NB) as (l & HL & HB).
      exists l. split; [replace (Z.to_nat pc) with (S (Z.to_nat (pc - 1))) by lia; exact HL|].
      replace (pc0 + pc) with (pc0 + 1 + (pc - 1)) by lia. exact HB.
Qed.

Lemma testbit_reg_mask : forall num_regs t, 0 <= t -> t < num_regs -> t < 16 -> Z.testbit (reg_mask num_regs) t = true.
Proof.
  intros num_regs t T0 T1 T2. unfold reg_mask. apply Z.ones_spec_low. lia.
Qed.

(** operands of an instruction *)
Definition locs_of (i : binstr) : list loc :=
  match i with
  | Add d a b | Sub d a b | Mul d a b => [d; a; b]
  | Copy d a => [d; a]
  | _ => []
  end.
Definition srcs_of (i : binstr) : list loc :=
  match i with
  | Add _ a b | Sub _ a b | Mul _ a b => [a; b]
  | Copy _ a => [a]
  | _ => []
  end.
Definition dst_of (i : binstr) : option loc :=
  match i with Add d _ _ | Sub d _ _ | Mul d _ _ | Copy d _ => Some d | _ => None end.
(** every tape cell an instruction names (operands, conditions, I/O cells) *)
Definition cells_of (i : binstr) : list Z :=
  match i with
  | Scan c _ | BrZ c _ | BrNZ c _ | Inp c | Outp c => [c]
  | _ => flat_map (fun l => match l with Mem k | MemZero k => [k] | _ => [] end) (locs_of i)
  end.
Definition temps_of (i : binstr) : list Z :=
  flat_map (fun l => match l with Tmp t => [t] | _ => [] end) (locs_of i).

(** the bit sets [uses]/[defs] describe the source/destination temporaries *)
Lemma testbit_bit : forall t n, 0 <= t -> Z.testbit (bit t) n = (n =? t).
Proof.
  intros t n T. unfold bit. destruct (Z.ltb_spec n 0) as [Neg|Pos].
  - rewrite Z.testbit_neg_r by exact Neg. symmetry. apply Z.eqb_neq. lia.
  - rewrite Z.shiftl_spec by exact Pos. destruct (Z.eqb_spec n t) as [->|Ne].
    + rewrite Z.sub_diag. reflexivity.
    + destruct (Z.ltb_spec (n - t) 0) as [N2|P2]; [apply Z.testbit_neg_r; exact N2|].
      change 1 with (Z.ones 1). apply Z.ones_spec_high. lia.
Qed.

Lemma uses_reads : forall i t, 0 <= t -> List.In (Tmp t) (srcs_of i) -> Z.testbit (uses i) t = true.
Proof.
  intros i t T H.
  assert (L : forall l, l = Tmp t -> Z.testbit (loc_tmp_use l) t = true)
    by (intros l ->; cbn; rewrite testbit_bit by exact T; apply Z.eqb_refl).
  destruct i; cbn [srcs_of List.In] in H; try contradiction; cbn [uses]; rewrite ?testbit_lor;
    intuition (try match goal with E : _ = Tmp t |- _ => rewrite (L _ E) end; rewrite ?orb_true_r; reflexivity).
Qed.

Lemma defs_writes : forall i t, Z.testbit (defs i) t = true -> dst_of i = Some (Tmp t).
Proof.
  intros i t H.
  assert (L : forall l, Z.testbit (loc_tmp_use l) t = true -> l = Tmp t).
  { intros l HL. destruct l; cbn in HL; try (rewrite Z.bits_0 in HL; discriminate).
    destruct (Z.ltb_spec t0 0) as [Neg|Pos].
    - unfold bit in HL. rewrite Z.shiftl_1_l in HL. rewrite Z.pow_neg_r in HL by exact Neg. rewrite Z.bits_0 in HL. discriminate.
    - rewrite testbit_bit in HL by exact Pos. apply Z.eqb_eq in HL. subst. reflexivity. }
  destruct i; cbn [defs] in H; try (rewrite Z.bits_0 in H; discriminate); cbn [dst_of]; f_equal; apply L; exact H.
Qed.

(** ** soundness of [bc_wf] *)
Section Sound.
Variable num_regs : Z.
Variable fuse : bool.
Variable p : bprog.
Hypothesis WF : bc_wf num_regs fuse p = true.

Let code := bp_code p.
Let len := Z.of_nat (length code).

Lemma wf_parts :
  bp_min p <= 0 <= bp_max p /\ 0 <= bp_temps p /\ length (bp_live p) = length code /\
  all_instr_ok p fuse len 0 code = true /\
  (exists full inn, aget inn full 0 = 0 /\ fwd_valid full code 0 inn = true /\ uses_defined full code 0 inn = true) /\
  (exists lin, bwd_valid code 0 lin = true /\ live_ok num_regs code (bp_live p) 0 lin = true).
Proof.
  pose proof WF as W. unfold bc_wf in W. fold code in W. fold len in W.
  repeat (apply andb_prop in W; destruct W as [W ?]).
  repeat match goal with H : _ && _ = true |- _ => apply andb_prop in H; destruct H end.
  split; [lia|]. split; [lia|]. split; [apply Nat.eqb_eq; assumption|]. split; [assumption|]. split.
  - destruct (fwd_fix _ _ code _) as [inn|]; [|discriminate].
    repeat match goal with H : _ && _ = true |- _ => apply andb_prop in H; destruct H end.
    eexists _, inn. split; [apply Z.eqb_eq; eassumption|split; assumption].
  - destruct (bwd_fix _ code _) as [lin|]; [|discriminate].
    repeat match goal with H : _ && _ = true |- _ => apply andb_prop in H; destruct H end.
    exists lin. split; assumption.
Qed.

Theorem wf_window_has_zero : bp_min p <= 0 <= bp_max p.
Proof. apply wf_parts. Qed.

Theorem wf_instr : forall pc i, instr_at code pc = Some i -> instr_ok p fuse len pc i = true.
Proof.
  intros pc i H. destruct wf_parts as (_ & _ & _ & A & _).
  pose proof (all_instr_ok_spec p fuse len code 0 A pc i H) as R. rewrite Z.add_0_l in R. exact R.
Qed.

Lemma loc_ok_cell : forall l k, loc_ok p fuse l = true -> (l = Mem k \/ l = MemZero k) -> bp_min p <= k <= bp_max p.
Proof.
  intros l k H [->| ->]; cbn in H; unfold cell_ok in H.
  - apply andb_prop in H. destruct H as [A B]. apply Z.leb_le in A. apply Z.leb_le in B. lia.
  - apply andb_prop in H. destruct H as [_ H]. apply andb_prop in H. destruct H as [A B].
    apply Z.leb_le in A. apply Z.leb_le in B. lia.
Qed.

Lemma instr_ok_locs : forall pc i l, instr_ok p fuse len pc i = true -> List.In l (locs_of i) -> loc_ok p fuse l = true.
Proof.
  intros pc i l H HI. destruct i; cbn [locs_of] in HI; try contradiction; cbn [instr_ok] in H;
    repeat (apply andb_prop in H; destruct H as [H ?]);
    cbn [List.In] in HI; intuition (subst; assumption).
Qed.

(** branch targets are instruction boundaries of the program ([len] is the exit) *)
Theorem wf_branch_targets : forall pc i s, instr_at code pc = Some i -> List.In s (succs pc i) -> 0 <= s <= len.
Proof.
  intros pc i s H HS. pose proof (wf_instr pc i H) as OK.
  assert (P : 0 <= pc < len).
  { unfold instr_at in H. destruct (pc <? 0) eqn:E; [discriminate|]. apply Z.ltb_ge in E.
    assert (Z.to_nat pc < length code)%nat by (apply nth_error_Some; congruence). unfold len. lia. }
  destruct i; cbn [succs List.In] in HS; try (destruct HS as [<-|[]]; lia);
    cbn [instr_ok] in OK; repeat (apply andb_prop in OK; destruct OK as [OK ?]);
    destruct HS as [<-|[<-|[]]]; try lia;
    repeat match goal with H : (_ <=? _) = true |- _ => apply Z.leb_le in H end; lia.
Qed.

(** every tape cell named by an instruction lies in the declared access window *)
Theorem wf_cells_in_window : forall pc i k, instr_at code pc = Some i -> List.In k (cells_of i) ->
  bp_min p <= k <= bp_max p.
Proof.
  intros pc i k H HK. pose proof (wf_instr pc i H) as OK.
  assert (CO : forall c, cell_ok p c = true -> bp_min p <= c <= bp_max p).
  { intros c Hc. unfold cell_ok in Hc. apply andb_prop in Hc. destruct Hc as [A B]. apply Z.leb_le in A. apply Z.leb_le in B. lia. }
  assert (LO : forall l, List.In l (locs_of i) ->
                List.In k (match l with Mem k0 | MemZero k0 => [k0] | _ => [] end) -> bp_min p <= k <= bp_max p).
  { intros l HL HK'. pose proof (instr_ok_locs pc i l OK HL) as LOK.
    destruct l; cbn [List.In] in HK'; try contradiction; destruct HK' as [<-|[]];
      eapply loc_ok_cell; eauto. }
  destruct i as [|c sh|sh|d|src|c off|c off|d a b|d a b|d a b|d a]; cbn [cells_of locs_of flat_map] in HK; cbn [instr_ok] in OK.
  - contradiction.
  - destruct HK as [<-|[]]. apply andb_prop in OK. apply CO, OK.
  - contradiction.
  - destruct HK as [<-|[]]. apply CO, OK.
  - destruct HK as [<-|[]]. apply CO, OK.
  - destruct HK as [<-|[]]. apply andb_prop in OK. destruct OK as [OK _]. apply andb_prop in OK. apply CO, OK.
  - destruct HK as [<-|[]]. apply andb_prop in OK. destruct OK as [OK _]. apply andb_prop in OK. apply CO, OK.
  - apply in_app_or in HK. destruct HK as [HK|HK]; [apply (LO d); [left; reflexivity|exact HK]|].
    apply in_app_or in HK. destruct HK as [HK|HK]; [apply (LO a); [right; left; reflexivity|exact HK]|].
    rewrite app_nil_r in HK. apply (LO b); [right; right; left; reflexivity|exact HK].
  - apply in_app_or in HK. destruct HK as [HK|HK]; [apply (LO d); [left; reflexivity|exact HK]|].
    apply in_app_or in HK. destruct HK as [HK|HK]; [apply (LO a); [right; left; reflexivity|exact HK]|].
    rewrite app_nil_r in HK. apply (LO b); [right; right; left; reflexivity|exact HK].
  - apply in_app_or in HK. destruct HK as [HK|HK]; [apply (LO d); [left; reflexivity|exact HK]|].
    apply in_app_or in HK. destruct HK as [HK|HK]; [apply (LO a); [right; left; reflexivity|exact HK]|].
    rewrite app_nil_r in HK. apply (LO b); [right; right; left; reflexivity|exact HK].
  - apply in_app_or in HK. destruct HK as [HK|HK]; [apply (LO d); [left; reflexivity|exact HK]|].
    rewrite app_nil_r in HK. apply (LO a); [right; left; reflexivity|exact HK].
Qed.

(** every temporary index is below the declared count *)
Theorem wf_temps_in_range : forall pc i t, instr_at code pc = Some i -> List.In t (temps_of i) -> 0 <= t < bp_temps p.
Proof.
  intros pc i t H HT. pose proof (wf_instr pc i H) as OK. unfold temps_of in HT.
  apply in_flat_map in HT. destruct HT as (l & HL & HT).
  pose proof (instr_ok_locs pc i l OK HL) as LOK. destruct l; cbn [List.In] in HT; try contradiction.
  destruct HT as [<-|[]]. cbn in LOK. apply andb_prop in LOK. destruct LOK as [A B].
  apply Z.leb_le in A. apply Z.ltb_lt in B. lia.
Qed.

(** no temporary is read before it is written, on any path *)
Theorem wf_defined_before_use : forall pc D i t, written code pc D -> instr_at code pc = Some i ->
  Z.testbit (uses i) t = true -> Z.testbit D t = true.
Proof.
  intros pc D i t W HI HU. destruct wf_parts as (_ & _ & _ & _ & (full & inn & E0 & V & U) & _).
  pose proof (written_inn code full inn E0 V pc D W) as S1.
  pose proof (uses_defined_spec full inn code 0 U pc i HI) as S2. rewrite Z.add_0_l in S2.
  rewrite bset_sub_spec in S1, S2. apply S1, S2, HU.
Qed.

(** every register temporary still needed after a non-branch instruction (and not written by it) is
    declared live across it *)
Theorem wf_live_declared : forall pc i s t, instr_at code pc = Some i -> is_branch i = false ->
  List.In s (succs pc i) -> needed code t s -> Z.testbit (defs i) t = false ->
  0 <= t -> t < num_regs -> t < 16 ->
  exists l, nth_error (bp_live p) (Z.to_nat pc) = Some l /\ Z.testbit l t = true.
Proof.
  intros pc i s t HI NB HS N ND T0 T1 T2. destruct wf_parts as (_ & _ & _ & _ & _ & (lin & V & L)).
  destruct (live_ok_spec num_regs lin code (bp_live p) 0 L pc i HI NB) as (l & HL & HB).
  exists l. split; [exact HL|]. rewrite Z.add_0_l in HB. rewrite bset_sub_spec in HB. apply HB.
  rewrite !Z.land_spec, Z.lnot_spec, ND by exact T0.
  rewrite (out_of_spec lin pc i s t HS (needed_lin code lin V t s N)), (testbit_reg_mask num_regs t T0 T1 T2). reflexivity.
Qed.

End Sound.

(** a live mask accepted by [live_regs_ok] names register temporaries only *)
Theorem live_regs_ok_sound : forall num_regs p, live_regs_ok num_regs p = true -> 0 <= num_regs ->
  forall pc l t, nth_error (bp_live p) pc = Some l -> Z.testbit l t = true -> 0 <= t < Z.min num_regs 16.
Proof.
  intros num_regs p LR NR pc l t HL HT. unfold live_regs_ok in LR.
  rewrite forallb_forall in LR. specialize (LR l (nth_error_In _ _ HL)).
  apply andb_prop in LR. destruct LR as [_ LR]. rewrite bset_sub_spec in LR. specialize (LR t HT).
  unfold reg_mask in LR.
  destruct (Z.ltb_spec t 0) as [Neg|Pos]; [rewrite Z.testbit_neg_r in HT by exact Neg; discriminate|].
  destruct (Z.ltb_spec t (Z.min num_regs 16)) as [Lt|Ge]; [lia|].
  rewrite Z.ones_spec_high in LR by lia. discriminate.
Qed.

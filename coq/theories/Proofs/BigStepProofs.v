(** * BigStepProofs.v — the fuel-indexed big-step semantics [BF.bf_exec] and the stack machine
    [Machines.bf_step] define the same terminating behaviours. *)
From Coq Require Import ZArith List Bool Lia Arith.
From HPBF Require Import Cell IO BF Machines MachineProofs.
Import ListNotations.
Open Scope Z_scope.

Definition terminal (o : outcome bfst) : Prop := match o with Done _ | Stopped _ => True | _ => False end.

(** more fuel does not change a terminated big-step run *)
Lemma bf_exec_mono : forall w e f p s o, bf_exec w e f p s = o -> terminal o ->
  forall f', (f <= f')%nat -> bf_exec w e f' p s = o.
Proof.
  intros w e f. induction f as [|f IH]; intros p s o H T f' L.
  - simpl in H. subst o. contradiction.
  - destruct f' as [|f']; [lia|]. cbn [bf_exec] in *.
    destruct p as [|c rest]; [exact H|].
    destruct c as [| | | | | |body];
      try (destruct (bf_simple w e _ s) as [s1|s1]; [apply (IH _ _ _ H T); lia|exact H]).
    destruct (cur s =? 0); [apply (IH _ _ _ H T); lia|].
    destruct (bf_exec w e f body s) as [s1|s1|s1|q s1|s1] eqn:B.
    + rewrite (IH _ _ _ B I f' ltac:(lia)). apply (IH _ _ _ H T). lia.
    + rewrite (IH _ _ _ B I f' ltac:(lia)). exact H.
    + subst o. contradiction.
    + subst o. contradiction.
    + subst o. contradiction.
Qed.

(** ** big-step => machine *)
Definition mk (ctl : list cmd) (k : list (list cmd * list cmd)) (s : bfst) : bfcfg :=
  {| c_ctl := ctl; c_kont := k; c_st := s |}.

Lemma big_to_machine : forall w e f p s o, bf_exec w e f p s = o -> terminal o ->
  forall k,
    match o with
    | Done s' => exists n, bf_cfg_after w e n (mk p k s) = Some (mk [] k s')
    | Stopped s' => exists n, bf_steps w e n (mk p k s) = Stopped s'
    | _ => False
    end.
Proof.
  intros w e f. induction f as [|f IH]; intros p s o H T k.
  - simpl in H. subst o. contradiction.
  - cbn [bf_exec] in H. destruct p as [|c rest].
    + subst o. exists 0%nat. reflexivity.
    + assert (SIMPLE : forall x, (forall b, x <> Loop b) ->
                match bf_simple w e x s with
                | inl s1 => bf_exec w e f rest s1
                | inr s1 => Stopped s1
                end = o ->
                match o with
                | Done s' => exists n, bf_cfg_after w e n (mk (x :: rest) k s) = Some (mk [] k s')
                | Stopped s' => exists n, bf_steps w e n (mk (x :: rest) k s) = Stopped s'
                | _ => False
                end).
      { intros x NL Hx.
        assert (ST : bf_step w e (mk (x :: rest) k s) =
                     match bf_simple w e x s with
                     | inl s1 => Next (mk rest k s1)
                     | inr s1 => Final (Stopped s1)
                     end).
        { unfold bf_step. cbn [c_ctl c_kont c_st mk]. destruct x; try reflexivity. exfalso. eapply NL. reflexivity. }
        destruct (bf_simple w e x s) as [s1|s1].
        - specialize (IH _ _ _ Hx T k). destruct o as [s'|s'|s'|q s'|s']; try contradiction.
          + destruct IH as [n Hn]. exists (S n). cbn [bf_cfg_after]. rewrite ST. exact Hn.
          + destruct IH as [n Hn]. exists (S n). cbn [bf_steps]. rewrite ST. exact Hn.
        - rewrite <- Hx. exists 1%nat. cbn [bf_steps]. rewrite ST. reflexivity. }
      destruct c as [| | | | | |body]; try (apply SIMPLE; [intros b Hb; discriminate|exact H]).
      destruct (cur s =? 0) eqn:C0.
      * specialize (IH _ _ _ H T k). destruct o as [s'|s'|s'|q s'|s']; try contradiction.
        -- destruct IH as [n Hn]. exists (S n). cbn [bf_cfg_after]. unfold bf_step. cbn [c_ctl c_kont c_st mk]. rewrite C0. exact Hn.
        -- destruct IH as [n Hn]. exists (S n). cbn [bf_steps]. unfold bf_step. cbn [c_ctl c_kont c_st mk]. rewrite C0. exact Hn.
      * assert (ENTER : bf_step w e (mk (Loop body :: rest) k s) = Next (mk body ((body, rest) :: k) s)).
        { unfold bf_step. cbn [c_ctl c_kont c_st mk]. rewrite C0. reflexivity. }
        destruct (bf_exec w e f body s) as [s1|s1|s1|q s1|s1] eqn:B; try (subst o; contradiction).
        -- (* body done: the machine pops the frame, which behaves like re-entering the loop *)
           destruct (IH _ _ _ B I ((body, rest) :: k)) as [n1 Hn1].
           pose proof (IH _ _ _ H T k) as IH2.
           assert (POP : bf_step w e (mk [] ((body, rest) :: k) s1) = bf_step w e (mk (Loop body :: rest) k s1)).
           { unfold bf_step. cbn [c_ctl c_kont c_st mk]. destruct (cur s1 =? 0); reflexivity. }
           destruct o as [s'|s'|s'|q s'|s']; try contradiction.
           ++ destruct IH2 as [n2 Hn2]. destruct n2 as [|n2]; [discriminate|].
              exists (S (n1 + S n2)). cbn [bf_cfg_after]. rewrite ENTER.
              rewrite (cfg_after_add w e n1 (S n2) _ _ Hn1). cbn [bf_cfg_after] in *. rewrite POP. exact Hn2.
           ++ destruct IH2 as [n2 Hn2]. destruct n2 as [|n2]; [discriminate|].
              exists (S (n1 + S n2)). cbn [bf_steps]. rewrite ENTER.
              rewrite (steps_after w e n1 (S n2) _ _ Hn1). cbn [bf_steps] in *. rewrite POP. exact Hn2.
        -- subst o. destruct (IH _ _ _ B I ((body, rest) :: k)) as [n1 Hn1].
           exists (S n1). cbn [bf_steps]. rewrite ENTER. exact Hn1.
Qed.

(** ** machine => big-step: unload the continuation into a program *)
Fixpoint flat (k : list (list cmd * list cmd)) : list cmd :=
  match k with [] => [] | (body, rest) :: k' => Loop body :: rest ++ flat k' end.
Definition prog_of (c : bfcfg) : list cmd := c_ctl c ++ flat (c_kont c).

(** an execution of [a ++ b] splits into an execution of [a] and one of [b] *)
Lemma exec_app_inv : forall w e f a b s o, bf_exec w e f (a ++ b) s = o -> terminal o ->
  (exists s1, bf_exec w e f a s = Done s1 /\ bf_exec w e f b s1 = o) \/
  (exists s1, bf_exec w e f a s = Stopped s1 /\ o = Stopped s1).
Proof.
  intros w e f. induction f as [|f IH]; intros a b s o H T.
  - simpl in H. subst o. contradiction.
  - destruct a as [|c a].
    + left. exists s. split; [reflexivity|exact H].
    + set (R := bf_exec w e (S f) b). cbn [app bf_exec] in H |- *.
      assert (FIN : forall (s2 s1 : bfst), bf_exec w e f b s1 = o -> R s1 = o).
      { intros s2 s1 B. subst R. apply (bf_exec_mono w e f b s1 o B T). lia. }
      destruct c as [| | | | | |body];
        try (destruct (bf_simple w e _ s) as [s2|s2] eqn:Sm;
             [destruct (IH a b s2 o H T) as [[s1 [A B]]|[s1 [A B]]];
              [left; exists s1; split; [exact A|apply (FIN s1 s1 B)]
              |right; exists s1; split; assumption]
             |right; exists s2; split; [reflexivity|symmetry; exact H]]).
      destruct (cur s =? 0).
      * destruct (IH a b s o H T) as [[s1 [A B]]|[s1 [A B]]];
          [left; exists s1; split; [exact A|apply (FIN s1 s1 B)]
          |right; exists s1; split; assumption].
      * destruct (bf_exec w e f body s) as [s2|s2|s2|q s2|s2] eqn:Bd; try (subst o; contradiction).
        -- change (Loop body :: a ++ b) with ((Loop body :: a) ++ b) in H.
           destruct (IH (Loop body :: a) b s2 o H T) as [[s1 [A B]]|[s1 [A B]]];
             [left; exists s1; split; [exact A|apply (FIN s1 s1 B)]
             |right; exists s1; split; assumption].
        -- right. exists s2. split; [reflexivity|symmetry; exact H].
Qed.

Lemma reenter_big : forall w e f body R s o, (cur s =? 0) = false ->
  bf_exec w e f (body ++ Loop body :: R) s = o -> terminal o ->
  bf_exec w e (S f) (Loop body :: R) s = o.
Proof.
  intros w e f body R s o C0 H T. cbn [bf_exec]. rewrite C0.
  destruct (exec_app_inv w e f body (Loop body :: R) s o H T) as [[s1 [A B]]|[s1 [A B]]].
  - rewrite A. exact B.
  - rewrite A. symmetry. exact B.
Qed.

Lemma step_preserves_big : forall w e c c' o, bf_step w e c = Next c' ->
  (exists f, bf_exec w e f (prog_of c') (c_st c') = o) -> terminal o ->
  exists f, bf_exec w e f (prog_of c) (c_st c) = o.
Proof.
  intros w e [ctl k s] c' o H [f Hf] T. unfold bf_step in H. cbn [c_ctl c_kont c_st] in H.
  unfold prog_of in *. cbn [c_ctl c_kont c_st] in *.
  destruct ctl as [|x rest].
  - destruct k as [|[body krest] k']; [discriminate|]. cbn [flat app].
    destruct (cur s =? 0) eqn:C0; injection H as <-; cbn [c_ctl c_kont c_st flat] in Hf.
    + exists (S f). cbn [bf_exec]. rewrite C0. exact Hf.
    + exists (S f). apply reenter_big; assumption.
  - destruct x as [| | | | | |body];
      try (cbv beta iota in H;
           match type of H with context [bf_simple w e ?x s] =>
             destruct (bf_simple w e x s) as [s1|s1] eqn:Sm end; [|discriminate]; injection H as <-;
           cbn [c_ctl c_kont c_st] in Hf; exists (S f); cbn [app bf_exec]; rewrite Sm; exact Hf).
    destruct (cur s =? 0) eqn:C0; injection H as <-; cbn [c_ctl c_kont c_st flat] in Hf.
    + exists (S f). cbn [app bf_exec]. rewrite C0. exact Hf.
    + exists (S f). cbn [app]. apply reenter_big; [exact C0| |exact T].
      exact Hf.
Qed.

Lemma machine_to_big : forall w e n c o, bf_steps w e n c = o -> terminal o ->
  exists f, bf_exec w e f (prog_of c) (c_st c) = o.
Proof.
  intros w e n. induction n as [|n IH]; intros c o H T.
  - simpl in H. subst o. contradiction.
  - cbn [bf_steps] in H. destruct (bf_step w e c) as [c'|o'] eqn:S.
    + eapply step_preserves_big; [exact S| |exact T]. apply (IH c' o H T).
    + subst o'. unfold bf_step in S. destruct c as [ctl k s]. cbn [c_ctl c_kont c_st] in S.
      unfold prog_of. cbn [c_ctl c_kont c_st].
      destruct ctl as [|x rest].
      * destruct k as [|[body krest] k']; [|destruct (cur s =? 0); discriminate].
        injection S as <-. exists 1%nat. reflexivity.
      * destruct x as [| | | | | |body];
          try (cbv beta iota in S;
               match type of S with context [bf_simple w e ?x s] =>
                 destruct (bf_simple w e x s) as [s1|s1] eqn:Sm end; [discriminate|]; injection S as <-;
               exists 1%nat; cbn [app bf_exec]; rewrite Sm; reflexivity).
        destruct (cur s =? 0); discriminate.
Qed.

(** the two presentations of the canonical semantics agree on terminating runs *)
Theorem big_step_machine : forall w e p o, terminal o ->
  (exists f, bf_exec w e f p bf0 = o) <-> (exists n, bf_steps w e n (mk p [] bf0) = o).
Proof.
  intros w e p o T. split.
  - intros [f H]. pose proof (big_to_machine w e f p bf0 o H T []) as B.
    destruct o as [s'|s'|s'|q s'|s']; try contradiction.
    + destruct B as [n Hn]. exists (S n). replace (S n) with (n + 1)%nat by lia.
      rewrite (steps_after w e n 1 _ _ Hn). reflexivity.
    + exact B.
  - intros [n H]. destruct (machine_to_big w e n _ o H T) as [f Hf]. exists f.
    unfold prog_of in Hf. cbn [mk c_ctl c_kont c_st flat] in Hf. rewrite app_nil_r in Hf. exact Hf.
Qed.

(** * X86Proofs.v — soundness of the symbolic evaluator and of the per-form checker of [X86.v]:
    if [form_ok] accepts the machine code emitted for a bytecode instruction, then for every
    initial machine state the code leaves, modulo 2^w, the specified value in the destination
    and leaves every other cell, stack slot and live register as it was (property C03,
    arithmetic instruction selection). *)
From Coq Require Import ZArith List Bool Lia Zdiv Permutation Morphisms Setoid.
From HPBF Require Import Cell Expr BC X86 CellProofs ExprProofs.
Import ListNotations.
Open Scope Z_scope.
#[local] Existing Instances eqm_setoid Zplus_eqm Zminus_eqm Zmult_eqm Zopp_eqm.
Local Arguments Z.mul : simpl never.
Local Arguments Z.add : simpl never.
Local Arguments Z.sub : simpl never.
Local Arguments Z.pow : simpl never.
Local Arguments Z.modulo : simpl never.

Section Sound.
Variable w : Z.
Hypothesis Hw : 0 <= w <= 64.
Let M := 2 ^ w.
Notation "a == b" := (eqm M a b) (at level 70).

Lemma Hw0 : 0 <= w. Proof. lia. Qed.
Lemma M_pos : 0 < M. Proof. apply Z.pow_pos_nonneg; lia. Qed.

(** dropping bits above position [sz >= w] does not change the value modulo 2^w *)
Lemma mod_sz : forall sz x, w <= sz -> x mod 2 ^ sz == x.
Proof.
  intros sz x L. unfold eqm, M.
  replace (2 ^ sz) with (2 ^ w * 2 ^ (sz - w)) by (rewrite <- Z.pow_add_r by lia; f_equal; lia).
  rewrite Z.rem_mul_r by (try apply Z.pow_nonzero; try (apply Z.pow_pos_nonneg; lia); lia).
  rewrite (Z.mul_comm (2 ^ w)), Z_mod_plus_full. apply Z.mod_mod. apply Z.pow_nonzero; lia.
Qed.

Lemma high_part : forall sz x, w <= sz -> x - x mod 2 ^ sz == 0.
Proof. intros sz x L. rewrite (mod_sz sz x L). unfold eqm; f_equal; try lia. Qed.

Lemma size_ok_cases : forall sz, size_ok sz = true -> sz = 8 \/ sz = 16 \/ sz = 32 \/ sz = 64.
Proof.
  intros sz H. unfold size_ok in H. repeat (apply orb_prop in H; destruct H as [H|H]); apply Z.eqb_eq in H; lia.
Qed.

(** ** the valuation of atoms: the initial machine state *)
Variable st0 : xst.
Definition rho (a : Z) : Z :=
  let m := a mod 4 in
  if m =? 1 then xr st0 ((a - 1) / 4)
  else if m =? 2 then xc st0 ((a - 2) / 4)
  else if m =? 3 then xs st0 ((a - 3) / 4) else 0.

Lemma rho_reg : forall r, rho (areg r) = xr st0 r.
Proof.
  intros r. unfold rho, areg. replace ((4 * r + 1) mod 4) with 1 by (rewrite Z.add_comm, Z.mul_comm, Z_mod_plus_full; reflexivity).
  cbn. replace (4 * r + 1 - 1) with (r * 4) by lia. rewrite Z.div_mul by lia. reflexivity.
Qed.
Lemma rho_cell : forall k, rho (acell k) = xc st0 k.
Proof.
  intros k. unfold rho, acell. replace ((4 * k + 2) mod 4) with 2 by (rewrite Z.add_comm, Z.mul_comm, Z_mod_plus_full; reflexivity).
  cbn. replace (4 * k + 2 - 2) with (k * 4) by lia. rewrite Z.div_mul by lia. reflexivity.
Qed.
Lemma rho_slot : forall t, rho (aslot t) = xs st0 t.
Proof.
  intros t. unfold rho, aslot. replace ((4 * t + 3) mod 4) with 3 by (rewrite Z.add_comm, Z.mul_comm, Z_mod_plus_full; reflexivity).
  cbn. replace (4 * t + 3 - 3) with (t * 4) by lia. rewrite Z.div_mul by lia. reflexivity.
Qed.

Definition ev (e : expr) : Z := eval w e rho.

(** ** concrete and symbolic states agree modulo 2^w *)
Definition agrees (st : xst) (s : sst) : Prop :=
  (forall r, xr st r == ev (sget_r s r)) /\ (forall k, xc st k == ev (sget_c s k)) /\ (forall t, xs st t == ev (sget_s s t)).

Lemma agrees0 : agrees st0 sst0.
Proof.
  split; [|split]; intros x; unfold ev, sget_r, sget_c, sget_s, sst0; cbn [sr sc ss alook];
    rewrite (eval_var w Hw0); [rewrite rho_reg|rewrite rho_cell|rewrite rho_slot]; reflexivity.
Qed.

Lemma sread_sound : forall st s o v, agrees st s -> sread w s o = Some v -> xread st o == ev v.
Proof.
  intros st s o v (AR & AC & AS) H. destruct o as [r sz|k|t|c]; cbn [sread xread] in *.
  - destruct (size_ok sz && (w <=? sz)) eqn:E; [|discriminate]. injection H as <-.
    apply andb_prop in E. destruct E as [_ E]. apply Z.leb_le in E. rewrite (mod_sz sz _ E). apply AR.
  - injection H as <-. apply AC.
  - injection H as <-. apply AS.
  - injection H as <-. unfold ev. rewrite (eval_val w Hw0). symmetry. apply (mod_sz w c). lia.
Qed.

Lemma alook_cons : forall k v l d k', alook k' ((k, v) :: l) d = if k =? k' then v else alook k' l d.
Proof. reflexivity. Qed.

Lemma swrite_sound : forall st s o v cs s' x, agrees st s -> swrite w s o v cs = Some s' ->
  x == ev v -> (forall c, cs = Some c -> x = c) -> agrees (xwrite w st o x) s'.
Proof.
  intros st s o v cs s' x (AR & AC & AS) H XV XC. destruct o as [r sz|k|t|c]; cbn [swrite xwrite] in *.
  - destruct (size_ok sz && (w <=? sz)) eqn:E.
    + injection H as <-. apply andb_prop in E. destruct E as [SO E]. apply Z.leb_le in E.
      split; [|split]; cbn [xr xc xs]; [|exact AC|exact AS].
      intros r'. unfold sget_r. cbn [sr]. rewrite alook_cons. unfold upd. rewrite (Z.eqb_sym r' r).
      destruct (r =? r') eqn:R; [|apply AR].
      destruct (sz =? 64) eqn:S64; [apply Z.eqb_eq in S64; rewrite (mod_sz 64 x) by lia; exact XV|].
      destruct (sz =? 32) eqn:S32; [apply Z.eqb_eq in S32; rewrite (mod_sz 32 x) by lia; exact XV|].
      rewrite (high_part sz (xr st r) E), (mod_sz sz x E), XV. reflexivity.
    + destruct cs as [c|]; [|discriminate].
      destruct ((sz =? 32) && (0 <=? c) && (c <? 2 ^ 32)) eqn:C; [|discriminate]. injection H as <-.
      apply andb_prop in C. destruct C as [C C3]. apply andb_prop in C. destruct C as [C1 C2].
      apply Z.eqb_eq in C1. apply Z.leb_le in C2. apply Z.ltb_lt in C3. subst sz.
      split; [|split]; cbn [xr xc xs]; [|exact AC|exact AS].
      intros r'. unfold sget_r. cbn [sr]. rewrite alook_cons. unfold upd. rewrite (Z.eqb_sym r' r).
      destruct (r =? r') eqn:R; [|apply AR].
      change (32 =? 64) with false. change (32 =? 32) with true. cbv iota.
      rewrite (XC c eq_refl). rewrite Z.mod_small by lia. unfold ev. rewrite (eval_val w Hw0).
      symmetry. apply (mod_sz w c). lia.
  - injection H as <-. split; [|split]; cbn [xr xc xs]; [exact AR| |exact AS].
    intros k'. unfold sget_c. cbn [sc]. rewrite alook_cons. unfold upd. rewrite (Z.eqb_sym k' k).
    destruct (k =? k'); [|apply AC]. rewrite (mod_sz w x) by lia. exact XV.
  - injection H as <-. split; [|split]; cbn [xr xc xs]; [exact AR|exact AC|].
    intros t'. unfold sget_s. cbn [ss]. rewrite alook_cons. unfold upd. rewrite (Z.eqb_sym t' t).
    destruct (t =? t'); [|apply AS]. rewrite (mod_sz 64 x) by lia. exact XV.
  - discriminate.
Qed.

Lemma no_const : forall (x c : Z), @None Z = Some c -> x = c.
Proof. intros; discriminate. Qed.

Lemma sstep_sound : forall st s i s', agrees st s -> sstep w s i = Some s' -> agrees (xstep w st i) s'.
Proof.
  intros st s i s' A H. destruct i as [d src|d src|d src|d|d|d src|d src c|d b idx disp]; cbn [sstep xstep] in *.
  - destruct (sread w s src) as [v|] eqn:RS; [|discriminate].
    eapply swrite_sound; [exact A|exact H|apply (sread_sound _ _ _ _ A RS)|].
    intros c Hc. destruct src; try discriminate. injection Hc as <-. reflexivity.
  - destruct (sread w s d) as [a|] eqn:RD; [|discriminate]. destruct (sread w s src) as [b|] eqn:RS; [|discriminate].
    eapply swrite_sound; [exact A|exact H| |apply no_const].
    unfold ev. rewrite (eval_add w Hw0). fold (ev a). fold (ev b).
    rewrite (sread_sound _ _ _ _ A RD), (sread_sound _ _ _ _ A RS). reflexivity.
  - destruct (sread w s d) as [a|] eqn:RD; [|discriminate]. destruct (sread w s src) as [b|] eqn:RS; [|discriminate].
    eapply swrite_sound; [exact A|exact H| |apply no_const].
    unfold ev. rewrite (eval_add w Hw0), (eval_neg w Hw0). fold (ev a). fold (ev b).
    rewrite (sread_sound _ _ _ _ A RD), (sread_sound _ _ _ _ A RS). unfold eqm; f_equal; try lia.
  - destruct (sread w s d) as [a|] eqn:RD; [|discriminate].
    eapply swrite_sound; [exact A|exact H| |apply no_const].
    unfold ev. rewrite (eval_add w Hw0), (eval_val w Hw0). fold (ev a).
    rewrite (sread_sound _ _ _ _ A RD), (mod_sz w 1) by lia. reflexivity.
  - destruct (sread w s d) as [a|] eqn:RD; [|discriminate].
    eapply swrite_sound; [exact A|exact H| |apply no_const].
    unfold ev. rewrite (eval_add w Hw0), (eval_neg w Hw0), (eval_val w Hw0). fold (ev a).
    rewrite (sread_sound _ _ _ _ A RD), (mod_sz w 1) by lia. unfold eqm; f_equal; try lia.
  - destruct (sread w s d) as [a|] eqn:RD; [|discriminate]. destruct (sread w s src) as [b|] eqn:RS; [|discriminate].
    eapply swrite_sound; [exact A|exact H| |apply no_const].
    unfold ev. rewrite (eval_mul w Hw0). fold (ev a). fold (ev b).
    rewrite (sread_sound _ _ _ _ A RD), (sread_sound _ _ _ _ A RS). reflexivity.
  - destruct (sread w s src) as [b|] eqn:RS; [|discriminate].
    eapply swrite_sound; [exact A|exact H| |apply no_const].
    unfold ev. rewrite (eval_mul w Hw0), (eval_val w Hw0). fold (ev b).
    rewrite (sread_sound _ _ _ _ A RS), (mod_sz w c) by lia. reflexivity.
  - eapply swrite_sound; [exact A|exact H| |apply no_const].
    destruct A as (AR & _ & _).
    unfold ev. rewrite !(eval_add w Hw0), (eval_val w Hw0), (mod_sz w disp) by lia.
    fold (ev (sget_r s b)). rewrite <- (AR b).
    destruct idx as [x|]; [fold (ev (sget_r s x)); rewrite <- (AR x); reflexivity|].
    change (eval w [] rho) with 0. reflexivity.
Qed.

Lemma srun_sound : forall code st s s', agrees st s -> srun w code s = Some s' -> agrees (xrun w code st) s'.
Proof.
  induction code as [|i code IH]; intros st s s' A H; cbn [srun xrun fold_left] in *.
  - injection H as <-. exact A.
  - destruct (sstep w s i) as [s1|] eqn:S; [|discriminate].
    apply (IH (xstep w st i) s1 s' (sstep_sound _ _ _ _ A S) H).
Qed.

(** ** comparison of polynomials *)
Lemma part_eqb_eq : forall a b, part_eqb a b = true -> a = b.
Proof.
  induction a as [|[c vs] a IH]; intros [|[c' vs'] b] H; cbn [part_eqb] in H; try discriminate; [reflexivity|].
  apply andb_prop in H. destruct H as [H H3]. apply andb_prop in H. destruct H as [H1 H2].
  apply Z.eqb_eq in H1. apply list_eqb_eq in H2. subst. f_equal. apply IH. exact H3.
Qed.

Lemma den_sortvars : forall r e, den r (map (fun p => (fst p, sort_z (snd p))) e) = den r e.
Proof.
  intros r e. induction e as [|[c vs] e IH]; [reflexivity|]. cbn [map fst snd]. unfold den in *. cbn [fold_right].
  rewrite IH. unfold dpart. cbn [fst snd]. rewrite (mon_perm r _ _ (sort_z_perm vs)). reflexivity.
Qed.

Lemma canon_sound : forall e, ev (canon w e) == ev e.
Proof.
  intros e. unfold ev, canon. rewrite (eval_normalize w Hw0), !(eval_den w Hw0).
  rewrite (den_perm rho _ _ (sort_parts_perm _)), den_sortvars. reflexivity.
Qed.

Lemma same_poly_sound : forall a b, same_poly w a b = true -> ev a == ev b.
Proof.
  intros a b H. unfold same_poly in H. apply part_eqb_eq in H.
  rewrite <- (canon_sound a), <- (canon_sound b), H. reflexivity.
Qed.

(** ** the checker *)
Definition xval (st : xst) (l : xloc) : Z :=
  match l with LReg r => xr st r | LCell k => xc st k | LSlot t => xs st t end.

Lemma alook_absent : forall k l d, ~ List.In k (map fst l) -> alook k l d = d.
Proof.
  intros k l d. induction l as [|[k' v] l IH]; intros N; [reflexivity|]. cbn [alook].
  destruct (k' =? k) eqn:E; [apply Z.eqb_eq in E; subst; exfalso; apply N; left; reflexivity|].
  apply IH. intros HI. apply N. right. exact HI.
Qed.

Lemma xloc_eqb_eq : forall a b, xloc_eqb a b = true -> a = b.
Proof. intros [x|x|x] [y|y|y] H; cbn in H; try discriminate; apply Z.eqb_eq in H; subst; reflexivity. Qed.

Lemma forallb_key : forall (f : Z * expr -> bool) (l : amap) k,
  forallb f l = true -> List.In k (map fst l) -> exists v, f (k, v) = true.
Proof.
  intros f l k H HI. apply in_map_iff in HI. destruct HI as [[k' v] [E HI]]. cbn in E. subst k'.
  rewrite forallb_forall in H. exists v. apply H. exact HI.
Qed.

(** a register no instruction names as destination keeps its exact value *)
Lemma xwrite_other_reg : forall st o v r, (match o with XReg r' _ => r' <> r | _ => True end) ->
  xr (xwrite w st o v) r = xr st r.
Proof.
  intros st o v r H. destruct o as [r' sz|k|t|c]; cbn [xwrite xr]; try reflexivity.
  unfold upd. destruct (r =? r') eqn:E; [apply Z.eqb_eq in E; subst; contradiction|reflexivity].
Qed.

Lemma xstep_keeps : forall st i r, (match dest_reg i with Some r' => r' <> r | None => True end) ->
  xr (xstep w st i) r = xr st r.
Proof.
  intros st i r H. destruct i as [d src|d src|d src|d|d|d src|d src c|d b idx disp]; cbn [xstep];
    apply xwrite_other_reg; cbn [dest_reg] in H; try (destruct d; (exact H || exact I)); try exact H.
Qed.

Lemma xrun_keeps : forall code st r, pinned r = true -> keeps_pinned code = true -> xr (xrun w code st) r = xr st r.
Proof.
  induction code as [|i code IH]; intros st r P K; [reflexivity|]. cbn [xrun fold_left]. fold (xrun w code (xstep w st i)).
  cbn [keeps_pinned forallb] in K. apply andb_prop in K. destruct K as [K1 K2].
  rewrite (IH _ r P K2). apply xstep_keeps. destruct (dest_reg i) as [r'|]; [|exact I].
  intros E. subst r'. rewrite P in K1. discriminate.
Qed.

Theorem form_ok_sound : forall i live code dst want,
  form_ok w i live code = true -> form_spec w i = Some (dst, want) ->
  (forall r, pinned r = true -> xr (xrun w code st0) r = xr st0 r) /\
  xval (xrun w code st0) dst == ev want /\
  (forall k, LCell k <> dst -> xc (xrun w code st0) k == xc st0 k) /\
  (forall t, LSlot t <> dst -> xs (xrun w code st0) t == xs st0 t) /\
  (forall r, LReg r <> dst -> may_clobber live r = false -> xr (xrun w code st0) r == xr st0 r).
Proof.
  intros i live code dst want H SP. unfold form_ok in H. rewrite SP in H.
  destruct (srun w code sst0) as [s|] eqn:SR; [|discriminate].
  destruct (srun_sound code st0 sst0 s agrees0 SR) as (AR & AC & AS).
  apply andb_prop in H. destruct H as [HP H].
  apply andb_prop in H. destruct H as [H HR]. apply andb_prop in H. destruct H as [H HS].
  apply andb_prop in H. destruct H as [HD HC].
  split; [intros r P; apply xrun_keeps; assumption|].
  split; [|split; [|split]].
  - apply same_poly_sound in HD. rewrite <- HD. destruct dst as [r|k|t]; cbn [xval]; [apply AR|apply AC|apply AS].
  - intros k N. rewrite (AC k).
    destruct (in_dec Z.eq_dec k (map fst (sc s))) as [HI|NI].
    + destruct (forallb_key _ _ k HC HI) as [v Hv]. cbn [fst] in Hv. apply orb_prop in Hv. destruct Hv as [Hv|Hv].
      * apply xloc_eqb_eq in Hv. subst dst. contradiction.
      * rewrite (same_poly_sound _ _ Hv). unfold ev. rewrite (eval_var w Hw0), rho_cell. reflexivity.
    + unfold sget_c. rewrite (alook_absent _ _ _ NI). unfold ev. rewrite (eval_var w Hw0), rho_cell. reflexivity.
  - intros t N. rewrite (AS t).
    destruct (in_dec Z.eq_dec t (map fst (ss s))) as [HI|NI].
    + destruct (forallb_key _ _ t HS HI) as [v Hv]. cbn [fst] in Hv. apply orb_prop in Hv. destruct Hv as [Hv|Hv].
      * apply xloc_eqb_eq in Hv. subst dst. contradiction.
      * rewrite (same_poly_sound _ _ Hv). unfold ev. rewrite (eval_var w Hw0), rho_slot. reflexivity.
    + unfold sget_s. rewrite (alook_absent _ _ _ NI). unfold ev. rewrite (eval_var w Hw0), rho_slot. reflexivity.
  - intros r N MC. rewrite (AR r).
    destruct (in_dec Z.eq_dec r (map fst (sr s))) as [HI|NI].
    + destruct (forallb_key _ _ r HR HI) as [v Hv]. cbn [fst] in Hv. rewrite MC, orb_false_r in Hv.
      apply orb_prop in Hv. destruct Hv as [Hv|Hv].
      * apply xloc_eqb_eq in Hv. subst dst. contradiction.
      * rewrite (same_poly_sound _ _ Hv). unfold ev. rewrite (eval_var w Hw0), rho_reg. reflexivity.
    + unfold sget_r. rewrite (alook_absent _ _ _ NI). unfold ev. rewrite (eval_var w Hw0), rho_reg. reflexivity.
Qed.

(** the expected polynomial is the arithmetic of the bytecode instruction on the operand values *)
Definition loc_val (l : loc) : Z :=
  match l with
  | Imm c => c
  | _ => match home l with Some h => xval st0 h | None => 0 end
  end.

Lemma loc_expr_val : forall l ex, loc_expr w l = Some ex -> ev ex == loc_val l.
Proof.
  intros l ex H. unfold loc_expr, loc_val in *. destruct l as [k|k|t|c]; try discriminate.
  - cbn [home] in *. injection H as <-. unfold ev. rewrite (eval_var w Hw0), rho_cell. reflexivity.
  - destruct (home (Tmp t)) as [[r|k|t']|]; try discriminate; injection H as <-; unfold ev; rewrite (eval_var w Hw0);
      [rewrite rho_reg|rewrite rho_cell|rewrite rho_slot]; reflexivity.
  - injection H as <-. unfold ev. rewrite (eval_val w Hw0). apply (mod_sz w c). lia.
Qed.

Theorem form_spec_value : forall i dst want, form_spec w i = Some (dst, want) ->
  match i with
  | Add d a b => home d = Some dst /\ ev want == loc_val a + loc_val b
  | Sub d a b => home d = Some dst /\ ev want == loc_val a - loc_val b
  | Mul d a b => home d = Some dst /\ ev want == loc_val a * loc_val b
  | Copy d a => home d = Some dst /\ ev want == loc_val a
  | _ => False
  end.
Proof.
  intros i dst want H. unfold form_spec in H. destruct i as [| | | | | | |d a b|d a b|d a b|d a]; try discriminate.
  - destruct (home d) as [h|]; [|discriminate]. destruct (loc_expr w a) as [ea|] eqn:EA; [|discriminate].
    destruct (loc_expr w b) as [eb|] eqn:EB; [|discriminate]. injection H as <- <-. split; [reflexivity|].
    unfold ev. rewrite (eval_add w Hw0). fold (ev ea). fold (ev eb).
    rewrite (loc_expr_val _ _ EA), (loc_expr_val _ _ EB). reflexivity.
  - destruct (home d) as [h|]; [|discriminate]. destruct (loc_expr w a) as [ea|] eqn:EA; [|discriminate].
    destruct (loc_expr w b) as [eb|] eqn:EB; [|discriminate]. injection H as <- <-. split; [reflexivity|].
    unfold ev. rewrite (eval_add w Hw0), (eval_neg w Hw0). fold (ev ea). fold (ev eb).
    rewrite (loc_expr_val _ _ EA), (loc_expr_val _ _ EB). unfold eqm; f_equal; try lia.
  - destruct (home d) as [h|]; [|discriminate]. destruct (loc_expr w a) as [ea|] eqn:EA; [|discriminate].
    destruct (loc_expr w b) as [eb|] eqn:EB; [|discriminate]. injection H as <- <-. split; [reflexivity|].
    unfold ev. rewrite (eval_mul w Hw0). fold (ev ea). fold (ev eb).
    rewrite (loc_expr_val _ _ EA), (loc_expr_val _ _ EB). reflexivity.
  - destruct (home d) as [h|]; [|discriminate]. destruct (loc_expr w a) as [ea|] eqn:EA; [|discriminate].
    injection H as <- <-. split; [reflexivity|]. apply (loc_expr_val _ _ EA).
Qed.
End Sound.

(** ** one arithmetic bytecode instruction is simulated by its machine code.
    [Rx]: the machine state represents the bytecode state modulo 2^w — tape cells at their offset
    from the tape pointer, temporaries in their register or stack slot. *)
From HPBF Require Import IO BCWf MachineProofs.
Section Simulates.
Variable w : Z.
Hypothesis Hw : 0 <= w <= 64.
Notation "a == b" := (eqm (2 ^ w) a b) (at level 70).

Definition tmp_home (t : Z) : option xloc := home (Tmp t).

Definition Rx (keep : Z -> bool) (s : bcst) (st : xst) : Prop :=
  (forall k, xc st k == bc_mem s k) /\
  (forall t h, 0 <= t -> keep t = true -> tmp_home t = Some h -> xval st h == tget (bc_tmps s) t).

Definition no_memzero (l : loc) : bool := match l with MemZero _ => false | _ => true end.

(** without read-and-clear operands the interpreter's two operand orders coincide *)
Lemma binop_pure : forall op s d a b, no_memzero a = true -> no_memzero b = true ->
  bc_binop w op s d a b = bc_write s d (op (fst (bc_read w s a)) (fst (bc_read w s b))).
Proof.
  intros op s d a b NA NB. unfold bc_binop.
  destruct a as [ka|ka|ta|ca]; try discriminate; destruct b as [kb|kb|tb|cb]; try discriminate;
    destruct (loc_eqb d _); reflexivity.
Qed.

Lemma loc_val_read : forall keep s st l, Rx keep s st -> no_memzero l = true ->
  (forall t, l = Tmp t -> 0 <= t /\ keep t = true) ->
  loc_val st l == fst (bc_read w s l).
Proof.
  intros keep s st l [RC RT] NM KT. destruct l as [k|k|t|c]; try discriminate; cbn [bc_read fst loc_val home].
  - apply RC.
  - destruct (KT t eq_refl) as [T0 KE]. destruct (t <? 0) eqn:E; [apply Z.ltb_lt in E; lia|].
    assert (HH : tmp_home t = Some (match tmp_reg t with Some r => LReg r | None => LSlot t end))
      by (unfold tmp_home; cbn [home]; rewrite E; destruct (tmp_reg t); reflexivity).
    destruct (tmp_reg t) as [r|]; apply (RT t _ T0 KE HH).
  - reflexivity.
Qed.

Lemma tmp_reg_inj : forall t t' r, 0 <= t -> 0 <= t' -> tmp_reg t = Some r -> tmp_reg t' = Some r -> t = t'.
Proof.
  intros t t' r T T' H H'. unfold tmp_reg in *.
  set (regs := [12; 13; 14; 15; 6; 7; 2; 8; 9; 10; 11]) in *.
  assert (ND : NoDup regs) by (subst regs; repeat constructor; cbn [List.In]; intuition discriminate).
  assert (L : (Z.to_nat t < length regs)%nat) by (apply nth_error_Some; rewrite H; discriminate).
  pose proof (proj1 (NoDup_nth_error _) ND (Z.to_nat t) (Z.to_nat t') L (eq_trans H (eq_sym H'))) as E. lia.
Qed.

Lemma tmp_home_inj : forall t t' h, 0 <= t -> 0 <= t' -> tmp_home t = Some h -> tmp_home t' = Some h -> t = t'.
Proof.
  intros t t' h T T' H H'. unfold tmp_home in *. cbn [home] in *.
  destruct (t <? 0) eqn:E; [apply Z.ltb_lt in E; lia|]. destruct (t' <? 0) eqn:E'; [apply Z.ltb_lt in E'; lia|].
  destruct (tmp_reg t) as [r|] eqn:R; destruct (tmp_reg t') as [r'|] eqn:R'; injection H as <-; try discriminate.
  - injection H' as ->. eapply tmp_reg_inj; eassumption.
  - injection H' as ->. reflexivity.
Qed.

Lemma tmp_home_not_cell : forall t k, tmp_home t <> Some (LCell k).
Proof.
  intros t k H. unfold tmp_home in H. cbn [home] in H. destruct (t <? 0); [discriminate|]. destruct (tmp_reg t); discriminate.
Qed.

Lemma mem_after_write : forall s d v k, dst_ok d = true ->
  bc_mem (bc_write s d v) k = if loc_eqb d (Mem k) then v else bc_mem s k.
Proof.
  intros s d v k D. destruct d as [k'|k'|t|c]; try discriminate; cbn [bc_write loc_eqb].
  - unfold bc_mem, bc_set_mem. cbn [bc_tape bc_ptr]. rewrite MachineProofs.tget_tset.
    destruct (k' =? k) eqn:E.
    + apply Z.eqb_eq in E. subst. rewrite Z.eqb_refl. reflexivity.
    + apply Z.eqb_neq in E. destruct (bc_ptr s + k' =? bc_ptr s + k) eqn:E2; [apply Z.eqb_eq in E2; lia|reflexivity].
  - reflexivity.
Qed.

Lemma tmp_after_write : forall s d v t, dst_ok d = true ->
  tget (bc_tmps (bc_write s d v)) t = if loc_eqb d (Tmp t) then v else tget (bc_tmps s) t.
Proof.
  intros s d v t D. destruct d as [k'|k'|t'|c]; try discriminate; cbn [bc_write loc_eqb].
  - reflexivity.
  - unfold bc_set_tmp. cbn [bc_tmps]. rewrite MachineProofs.tget_tset. reflexivity.
Qed.

(** which temporaries the machine state still represents after the instruction: the destination,
    and those that were represented and whose register the code may not clobber *)
Definition keep_after (keep : Z -> bool) (live : Z) (d : loc) (t : Z) : bool :=
  loc_eqb d (Tmp t) ||
  (keep t && match tmp_reg t with Some r => negb (may_clobber live r) | None => true end).

Theorem form_simulates : forall i live code keep s st d (op : Z -> Z -> Z) (a b : option loc),
  form_ok w i live code = true ->
  (* the instruction, its arithmetic and its operands *)
  (match i with
   | Add d' a' b' => d = d' /\ a = Some a' /\ b = Some b' /\ op = (fun x y => x + y)
   | Sub d' a' b' => d = d' /\ a = Some a' /\ b = Some b' /\ op = (fun x y => x - y)
   | Mul d' a' b' => d = d' /\ a = Some a' /\ b = Some b' /\ op = (fun x y => x * y)
   | Copy d' a' => d = d' /\ a = Some a' /\ b = None /\ op = (fun x _ => x)
   | _ => False
   end) ->
  dst_ok d = true -> (forall t, d = Tmp t -> 0 <= t) ->
  (forall l t, (a = Some l \/ b = Some l) -> l = Tmp t -> 0 <= t /\ keep t = true) ->
  Rx keep s st ->
  forall v, v == op (match a with Some l => fst (bc_read w s l) | None => 0 end)
                    (match b with Some l => fst (bc_read w s l) | None => 0 end) ->
  Rx (keep_after keep live d) (bc_write s d v) (xrun w code st).
Proof.
  intros i live code keep s st d op a b OK SHAPE DOK DT SRC R v HV.
  destruct (form_spec w i) as [[dst want]|] eqn:SP; [|unfold form_ok in OK; rewrite SP in OK; discriminate].
  destruct (form_ok_sound w Hw st i live code dst want OK SP) as (_ & V & CU & SU & RU).
  pose proof (form_spec_value w Hw st i dst want SP) as FV.
  (* the destination holds v *)
  assert (HD : home d = Some dst /\ xval (xrun w code st) dst == v).
  { destruct i as [| | | | | | |d' a' b'|d' a' b'|d' a' b'|d' a']; try contradiction;
      destruct SHAPE as (-> & -> & -> & ->); destruct FV as [HH FV]; (split; [exact HH|]); rewrite V, FV, HV.
    - assert (NA : no_memzero a' = true /\ no_memzero b' = true).
      { unfold form_spec in SP. destruct (home d'); [|discriminate].
        destruct (loc_expr w a') eqn:EA; [|discriminate]. destruct (loc_expr w b') eqn:EB; [|discriminate].
        split; [destruct a'; try reflexivity; discriminate|destruct b'; try reflexivity; discriminate]. }
      rewrite (loc_val_read keep s st a' R (proj1 NA) (fun t E => SRC a' t (or_introl eq_refl) E)),
              (loc_val_read keep s st b' R (proj2 NA) (fun t E => SRC b' t (or_intror eq_refl) E)). reflexivity.
    - assert (NA : no_memzero a' = true /\ no_memzero b' = true).
      { unfold form_spec in SP. destruct (home d'); [|discriminate].
        destruct (loc_expr w a') eqn:EA; [|discriminate]. destruct (loc_expr w b') eqn:EB; [|discriminate].
        split; [destruct a'; try reflexivity; discriminate|destruct b'; try reflexivity; discriminate]. }
      rewrite (loc_val_read keep s st a' R (proj1 NA) (fun t E => SRC a' t (or_introl eq_refl) E)),
              (loc_val_read keep s st b' R (proj2 NA) (fun t E => SRC b' t (or_intror eq_refl) E)). reflexivity.
    - assert (NA : no_memzero a' = true /\ no_memzero b' = true).
      { unfold form_spec in SP. destruct (home d'); [|discriminate].
        destruct (loc_expr w a') eqn:EA; [|discriminate]. destruct (loc_expr w b') eqn:EB; [|discriminate].
        split; [destruct a'; try reflexivity; discriminate|destruct b'; try reflexivity; discriminate]. }
      rewrite (loc_val_read keep s st a' R (proj1 NA) (fun t E => SRC a' t (or_introl eq_refl) E)),
              (loc_val_read keep s st b' R (proj2 NA) (fun t E => SRC b' t (or_intror eq_refl) E)). reflexivity.
    - assert (NA : no_memzero a' = true).
      { unfold form_spec in SP. destruct (home d'); [|discriminate].
        destruct (loc_expr w a') eqn:EA; [|discriminate]. destruct a'; try reflexivity; discriminate. }
      rewrite (loc_val_read keep s st a' R NA (fun t E => SRC a' t (or_introl eq_refl) E)). reflexivity. }
  destruct HD as [HH HDV]. destruct R as [RC RT].
  split.
  - intros k. rewrite (mem_after_write s d v k DOK). destruct (loc_eqb d (Mem k)) eqn:E.
    + destruct d as [k'|k'|t'|c]; try discriminate. cbn in E. apply Z.eqb_eq in E. subst k'.
      cbn [home] in HH. injection HH as <-. exact HDV.
    + rewrite (CU k); [apply RC|]. intros EQ. rewrite <- EQ in HH.
      destruct d as [k'|k'|t'|c]; try discriminate.
      * cbn [home] in HH. injection HH as ->. cbn in E. rewrite Z.eqb_refl in E. discriminate.
      * exact (tmp_home_not_cell t' k HH).
  - intros t h T0 KA HT. rewrite (tmp_after_write s d v t DOK). unfold keep_after in KA.
    destruct (loc_eqb d (Tmp t)) eqn:E.
    + destruct d as [k'|k'|t'|c]; try discriminate. cbn in E. apply Z.eqb_eq in E. subst t'.
      unfold tmp_home in HT. rewrite HT in HH. injection HH as <-. exact HDV.
    + cbn [orb] in KA. apply andb_prop in KA. destruct KA as [KE KC].
      assert (NE : h <> dst).
      { intros EQ. subst h. destruct d as [k'|k'|t'|c]; try discriminate.
        - cbn [home] in HH. injection HH as <-. exact (tmp_home_not_cell t k' HT).
        - assert (t = t') by (eapply tmp_home_inj; [exact T0|apply DT; reflexivity|exact HT|exact HH]).
          subst t'. cbn in E. rewrite Z.eqb_refl in E. discriminate. }
      rewrite <- (RT t h T0 KE HT).
      unfold tmp_home in HT. cbn [home] in HT. destruct (t <? 0) eqn:TN; [discriminate|].
      destruct (tmp_reg t) as [r|] eqn:TR; injection HT as <-; cbn [xval].
      * apply RU; [intros EQ; apply NE; exact EQ|apply negb_true_iff; exact KC].
      * apply SU. intros EQ. apply NE. exact EQ.
Qed.
End Simulates.

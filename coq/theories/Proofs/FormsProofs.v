(** * FormsProofs.v — every shape parameter reordering can leave is accepted by both selectors. *)
From Coq Require Import ZArith List Bool Lia.
From HPBF Require Import Cell IO BC Forms.
Open Scope Z_scope.

Ltac kill_eqs :=
  repeat (simpl; match goal with
                 | |- context [if ?c then _ else _] => destruct c eqn:?
                 end).

Theorem jit_covers_all : forall w i, pre_shape i = true -> jit_covers (reorder w i) = true.
Proof.
  intros w i H.
  destruct i as [|c s|s|d|s|c o|c o|d a b|d a b|d a b|d a]; simpl in H; try reflexivity; try discriminate.
  - destruct d, a, b; simpl in H; try discriminate; unfold reorder, commute; simpl; kill_eqs; simpl; try reflexivity;
      try (rewrite Z.eqb_refl; reflexivity); try lia;
      repeat match goal with H : (_ =? _) = true |- _ => apply Z.eqb_eq in H; subst end;
      rewrite ?Z.eqb_refl; try reflexivity; try congruence.
  - destruct d, a, b; simpl in H; try discriminate; unfold reorder, commute; simpl; kill_eqs; simpl; try reflexivity;
      try (rewrite Z.eqb_refl; reflexivity);
      repeat match goal with H : (_ =? _) = true |- _ => apply Z.eqb_eq in H; subst end;
      rewrite ?Z.eqb_refl; try reflexivity; try congruence.
  - destruct d, a, b; simpl in H; try discriminate; unfold reorder, commute; simpl; kill_eqs; simpl; try reflexivity;
      try (rewrite Z.eqb_refl; reflexivity);
      repeat match goal with H : (_ =? _) = true |- _ => apply Z.eqb_eq in H; subst end;
      rewrite ?Z.eqb_refl; try reflexivity; try congruence.
  - destruct d, a; simpl in H; try discriminate; reflexivity.
Qed.

Lemma reorder_dst : forall w i, pre_shape i = true -> int_covers (reorder w i) = true.
Proof.
  intros w i H.
  destruct i as [|c s|s|d|s|c o|c o|d a b|d a b|d a b|d a]; simpl in H; try reflexivity; try discriminate.
  - destruct d, a, b; simpl in H; try discriminate; unfold reorder, commute; simpl; kill_eqs; reflexivity.
  - destruct d, a, b; simpl in H; try discriminate; unfold reorder, commute; simpl; kill_eqs; reflexivity.
  - destruct d, a, b; simpl in H; try discriminate; unfold reorder, commute; simpl; kill_eqs; reflexivity.
  - destruct d, a; simpl in H; try discriminate; reflexivity.
Qed.

(** fusion only changes sources from [Mem] to [MemZero]: the emitter accepts the result *)
Theorem int_covers_all : forall w i j, pre_shape i = true -> unzero_instr j = reorder w i -> int_covers j = true.
Proof.
  intros w i j H E. pose proof (reorder_dst w i H) as C. rewrite <- E in C.
  destruct j; simpl in *; try reflexivity; exact C.
Qed.

(** normal form: an immediate operand of a commutative operation is last *)
Theorem reorder_imm_last : forall w d a b d' a' b',
  pre_shape (Add d a b) = true -> reorder w (Add d a b) = Add d' a' b' -> is_imm a' = false.
Proof.
  intros w d a b d' a' b' H E.
  destruct d, a, b; simpl in H; try discriminate; unfold reorder, commute in E; simpl in E;
    repeat (match type of E with context [if ?c then _ else _] => destruct c end; simpl in E);
    try discriminate; inversion E; subst; reflexivity.
Qed.

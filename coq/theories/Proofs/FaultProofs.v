(** * FaultProofs.v — an I/O failure is the last thing that happens (property C08): in every
    engine model a run that is stopped has exactly one failure event, at the very end of its
    trace (or none when the input source is absent, which logs nothing), and a run that is not
    stopped has no failure event at all. *)
From Coq Require Import ZArith List Bool.
From HPBF Require Import Cell IO BF Expr IR BC LimitedProofs BCProofs.
Import ListNotations.
Open Scope Z_scope.

Definition is_fail (ev : event) : bool := match ev with EvInFail | EvOutFail _ => true | _ => false end.
Definition clean (t : list event) : Prop := forallb (fun ev => negb (is_fail ev)) t = true.
(** [t] is most recent first *)
Definition failed_last (t : list event) : Prop :=
  clean t \/ exists ev rest, t = ev :: rest /\ is_fail ev = true /\ clean rest.

Lemma input_fault : forall e s, clean (trace s) ->
  match do_input e s with IoOk _ i => clean (trace i) | IoFail i => failed_last (trace i) end.
Proof.
  intros e s C. unfold do_input. destruct (in_absent e); [left; exact C|].
  destruct (opt_nat_eqb (in_fail_at e) (in_pos s)).
  - right. cbn [trace]. eexists _, _. split; [reflexivity|split; [reflexivity|exact C]].
  - destruct (nth_error (input e) (in_pos s)); cbn [trace]; unfold clean; cbn [forallb is_fail negb andb]; exact C.
Qed.

Lemma output_fault : forall e s b, clean (trace s) ->
  match do_output e s b with IoOk _ i => clean (trace i) | IoFail i => failed_last (trace i) end.
Proof.
  intros e s b C. unfold do_output. destruct (negb (out_present e)); [exact C|].
  destruct (opt_nat_eqb (out_fail_at e) (out_cnt s)).
  - right. cbn [trace]. eexists _, _. split; [reflexivity|split; [reflexivity|exact C]].
  - cbn [trace]. unfold clean. cbn [forallb is_fail negb andb]. exact C.
Qed.

Definition fault_shape {A} (get : A -> iost) (o : outcome A) : Prop :=
  match o with
  | Stopped s => failed_last (trace (get s))
  | Done s | Interrupted s | OutOfFuel s | Errored _ s => clean (trace (get s))
  end.

(** canonical semantics *)
Lemma simple_fault : forall w e c s, clean (trace (io s)) ->
  match bf_simple w e c s with inl s' => clean (trace (io s')) | inr s' => failed_last (trace (io s')) end.
Proof.
  intros w e c s C. destruct c; cbn [bf_simple]; try exact C.
  - pose proof (output_fault e (io s) (into_u8 w (cur s)) C) as O. destruct (do_output e (io s) _); exact O.
  - pose proof (input_fault e (io s) C) as O. destruct (do_input e (io s)); exact O.
Qed.

Theorem bf_fault : forall w e f p s, clean (trace (io s)) -> fault_shape io (bf_exec w e f p s).
Proof.
  intros w e f. induction f as [|f IH]; intros p s C; [exact C|].
  cbn [bf_exec]. destruct p as [|c rest]; [exact C|].
  destruct c as [| | | | | |body];
    try (match goal with |- context [bf_simple w e ?c s] =>
           pose proof (simple_fault w e c s C) as S; destruct (bf_simple w e c s) as [s1|s1]; [apply IH; exact S|exact S] end).
  destruct (cur s =? 0); [apply IH; exact C|].
  pose proof (IH body s C) as B. destruct (bf_exec w e f body s); cbn [fault_shape] in *; try exact B. apply IH. exact B.
Qed.

(** IR interpreter, with or without budget *)
Theorem ir_fault : forall w e lim f p s, clean (trace (ir_io s)) -> fault_shape ir_io (ir_exec w e lim f p s).
Proof.
  intros w e lim f. induction f as [|f IH]; intros p s C; [exact C|].
  cbn [ir_exec]. destruct p as [|i rest]; [exact C|].
  assert (LOOP : forall shift body (cont : list instr),
    fault_shape ir_io (match ir_exec w e lim f body s with
        | Done s' | Interrupted s' =>
            if lim then
              if ir_budget (ir_move s' shift) =? 0 then Interrupted (ir_move s' shift)
              else ir_exec w e lim f cont (ir_set_budget (ir_move s' shift) (ir_budget (ir_move s' shift) - 1))
            else ir_exec w e lim f cont (ir_move s' shift)
        | Stopped s' => Stopped s'
        | Errored p0 s' => Errored p0 s'
        | OutOfFuel s' => OutOfFuel s'
        end)).
  { intros shift body cont. pose proof (IH body s C) as B.
    destruct (ir_exec w e lim f body s) as [a|a|a|q a|a]; cbn [fault_shape] in *; try exact B;
      (destruct lim; [destruct (ir_budget (ir_move a shift) =? 0); [exact B|apply IH; exact B]|apply IH; exact B]). }
  destruct i as [src|dst|calcs|cond shift body once|cond shift body].
  - pose proof (output_fault e (ir_io s) (into_u8 w (ir_read s src)) C) as O.
    destruct (do_output e (ir_io s) _); [apply IH; exact O|exact O].
  - pose proof (input_fault e (ir_io s) C) as O.
    destruct (do_input e (ir_io s)); [apply IH; exact O|exact O].
  - apply IH. rewrite calc_io. exact C.
  - destruct (ir_read s cond =? 0); [apply IH; exact C|]. apply LOOP.
  - destruct (ir_read s cond =? 0); [apply IH; exact C|]. apply LOOP.
Qed.

(** bytecode interpreter, with or without budget *)
Theorem bc_fault : forall w e lim fetch len f s, clean (trace (bc_io s)) -> fault_shape bc_io (bc_exec w e lim fetch len f s).
Proof.
  intros w e lim fetch len f. induction f as [|f IH]; intros s C; [exact C|].
  cbn [bc_exec]. destruct (bc_pc s =? len); [exact C|].
  destruct (fetch (bc_pc s)) as [i|]; [|exact C].
  assert (STEP : forall s', bc_io s' = bc_io s -> fault_shape bc_io (bc_exec w e lim fetch len f s')).
  { intros s' Q. apply IH. rewrite Q. exact C. }
  destruct i as [|c sh|sh|d|src|c off|c off|d a b0|d a b0|d a b0|d a].
  - apply STEP. reflexivity.
  - destruct (lim && (sh =? 0)).
    + destruct (bc_mem s c =? 0); [apply STEP; reflexivity|].
      destruct (bc_limit usize_max s) as [s0|] eqn:L; [|exact C].
      destruct (bc_scan (S f) c sh s0) as [s'|] eqn:SC.
      * apply STEP. cbn [next bc_set_pc bc_io]. rewrite (io_scan _ _ _ _ _ SC). apply (io_limit _ _ _ L).
      * cbn [fault_shape]. rewrite (io_limit _ _ _ L). exact C.
    + destruct (bc_scan (S f) c sh s) as [s'|] eqn:SC; [|exact C].
      apply STEP. cbn [next bc_set_pc bc_io]. apply (io_scan _ _ _ _ _ SC).
  - apply STEP. reflexivity.
  - pose proof (input_fault e (bc_io s) C) as O. destruct (do_input e (bc_io s)) as [v i'|i']; [|exact O].
    apply IH. exact O.
  - pose proof (output_fault e (bc_io s) (into_u8 w (bc_mem s src)) C) as O.
    destruct (do_output e (bc_io s) _) as [u i'|i']; [|exact O]. apply IH. exact O.
  - destruct (if lim then bc_limit 1 s else Some s) as [s0|] eqn:L; [|exact C].
    assert (Q : bc_io s0 = bc_io s) by (destruct lim; [apply (io_limit _ _ _ L)|injection L as <-; reflexivity]).
    destruct (bc_mem s0 c =? 0); apply STEP; exact Q.
  - destruct (if lim then bc_limit 1 s else Some s) as [s0|] eqn:L; [|exact C].
    assert (Q : bc_io s0 = bc_io s) by (destruct lim; [apply (io_limit _ _ _ L)|injection L as <-; reflexivity]).
    destruct (bc_mem s0 c =? 0); apply STEP; exact Q.
  - apply STEP. cbn [next bc_set_pc bc_io]. apply io_binop.
  - apply STEP. cbn [next bc_set_pc bc_io]. apply io_binop.
  - apply STEP. cbn [next bc_set_pc bc_io]. apply io_binop.
  - destruct (bc_read w s a) as [v s1] eqn:R. apply STEP. cbn [next bc_set_pc bc_io]. rewrite io_write.
    change s1 with (snd (v, s1)). rewrite <- R. apply io_read.
Qed.

(** * InplaceProofs.v — the in-place interpreter (pc / loop-stack machine over the byte string)
    simulates, and is simulated by, the canonical machine (property C04). *)

From Coq Require Import ZArith List Bool Lia Arith.
From HPBF Require Import Cell IO BF Machines Inplace MachineProofs.
Import ListNotations.
Open Scope Z_scope.

(** ** the text/AST relation *)
Definition simple_of (c : Z) : option cmd :=
  if c =? ch_plus then Some Inc else if c =? ch_minus then Some Dec
  else if c =? ch_lt then Some Left else if c =? ch_gt then Some Right
  else if c =? ch_dot then Some Out else if c =? ch_comma then Some In else None.

(** [parses text cmds after]: [text] reads as [cmds] up to its first unmatched ']' (or its end);
    [after] is the remaining text (empty, or starting with that ']') *)
Inductive parses : list Z -> list cmd -> list Z -> Prop :=
| P_nil : parses [] [] []
| P_close : forall r, parses (ch_close :: r) [] (ch_close :: r)
| P_simple : forall c x r cs a, (c =? ch_open) = false -> (c =? ch_close) = false ->
    simple_of c = Some x -> parses r cs a -> parses (c :: r) (x :: cs) a
| P_comment : forall c r cs a, (c =? ch_open) = false -> (c =? ch_close) = false ->
    simple_of c = None -> parses r cs a -> parses (c :: r) cs a
| P_loop : forall r body r2 cs a, parses r body (ch_close :: r2) -> parses r2 cs a ->
    parses (ch_open :: r) (Loop body :: cs) a.

Lemma parse_seg_parses : forall f cs p a, parse_seg f cs = Some (p, a) ->
  parses cs p a /\ (a = [] \/ exists r, a = ch_close :: r).
Proof.
  induction f as [|f IH]; intros cs p a H; [discriminate|].
  cbn [parse_seg] in H. destruct cs as [|c r].
  - injection H as <- <-. split; [constructor|left; reflexivity].
  - destruct (c =? ch_close) eqn:Ec.
    + injection H as <- <-. apply Z.eqb_eq in Ec. subst c. split; [constructor|right; eexists; reflexivity].
    + destruct (c =? ch_open) eqn:Eo.
      * apply Z.eqb_eq in Eo. subst c.
        destruct (parse_seg f r) as [[body after]|] eqn:P1; [|discriminate].
        destruct after as [|x r2]; [discriminate|].
        destruct (parse_seg f r2) as [[more a2]|] eqn:P2; [|discriminate].
        injection H as <- <-.
        destruct (IH _ _ _ P1) as [Q1 [C1|[r' C1]]]; [discriminate|]. injection C1 as -> ->.
        destruct (IH _ _ _ P2) as [Q2 C2].
        split; [eapply P_loop; eassumption|exact C2].
      * destruct (parse_seg f r) as [[more a2]|] eqn:P1; [|discriminate].
        destruct (IH _ _ _ P1) as [Q1 C1].
        assert (S : forall x, simple_of c = Some x -> parses (c :: r) (x :: more) a2)
          by (intros x Hx; apply P_simple; assumption).
        unfold simple_of in S |- *.
        destruct (c =? ch_plus) eqn:E1; [injection H as <- <-; split; [apply S; reflexivity|exact C1]|].
        destruct (c =? ch_minus) eqn:E2; [injection H as <- <-; split; [apply S; reflexivity|exact C1]|].
        destruct (c =? ch_lt) eqn:E3; [injection H as <- <-; split; [apply S; reflexivity|exact C1]|].
        destruct (c =? ch_gt) eqn:E4; [injection H as <- <-; split; [apply S; reflexivity|exact C1]|].
        destruct (c =? ch_dot) eqn:E5; [injection H as <- <-; split; [apply S; reflexivity|exact C1]|].
        destruct (c =? ch_comma) eqn:E6; [injection H as <- <-; split; [apply S; reflexivity|exact C1]|].
        injection H as <- <-. split; [|exact C1].
        apply P_comment; try assumption. unfold simple_of. rewrite E1, E2, E3, E4, E5, E6. reflexivity.
Qed.

Lemma ast_parses : forall src p, ast_of_source src = Some p -> parses src p [].
Proof.
  intros src p H. unfold ast_of_source in H.
  destruct (parse_seg (S (length src)) src) as [[q a]|] eqn:P; [|discriminate].
  destruct a; [|discriminate]. injection H as <-. apply (parse_seg_parses _ _ _ _ P).
Qed.

(** the forward scan of a skipped loop stops exactly after the matching ']' *)
Lemma scan_parses : forall text cs a, parses text cs a -> forall n,
  ip_scan text n = match a with
                   | [] => []
                   | _ :: r2 => match n with O => r2 | S n' => ip_scan r2 n' end
                   end.
Proof.
  intros text cs a H. induction H as [|r|c x r cs a Ho Hc Hs Hp IH|c r cs a Ho Hc Hs Hp IH|r body r2 cs a H1 IH1 H2 IH2]; intros n.
  - reflexivity.
  - cbn [ip_scan]. change (ch_close =? ch_close) with true. cbv iota. destruct n; reflexivity.
  - cbn [ip_scan]. rewrite Hc, Ho. apply IH.
  - cbn [ip_scan]. rewrite Hc, Ho. apply IH.
  - cbn [ip_scan]. change (ch_open =? ch_close) with false. change (ch_open =? ch_open) with true. cbv iota.
    rewrite IH1. apply IH2.
Qed.

Corollary scan_skips_matching : forall r body r2, parses r body (ch_close :: r2) -> ip_scan r O = r2.
Proof. intros r body r2 H. rewrite (scan_parses _ _ _ H). reflexivity. Qed.

(** ** one step of the in-place machine (unlimited mode) *)
Definition ip_step (w : Z) (e : env) (total : Z) (rest : list Z) (s : ipst) : (list Z * ipst) + outcome ipst :=
  match rest with
  | [] => inr (Done s)
  | c :: rest' =>
      if c =? ch_lt then inl (rest', ip_move s (-1))
      else if c =? ch_gt then inl (rest', ip_move s 1)
      else if c =? ch_plus then inl (rest', ip_set_cur s (wadd w (ip_cur s) 1))
      else if c =? ch_minus then inl (rest', ip_set_cur s (wadd w (ip_cur s) (neg_one w)))
      else if c =? ch_dot then
        match do_output e (ip_io s) (into_u8 w (ip_cur s)) with
        | IoOk _ i => inl (rest', ip_set_io s i)
        | IoFail i => inr (Stopped (ip_set_io s i))
        end
      else if c =? ch_comma then
        match do_input e (ip_io s) with
        | IoOk b i => inl (rest', ip_set_io (ip_set_cur s (from_u8 w b)) i)
        | IoFail i => inr (Stopped (ip_set_io s i))
        end
      else if c =? ch_open then
        if ip_cur s =? 0 then inl (ip_scan rest' O, s)
        else inl (rest', ip_set_stack s (rest' :: ip_stack s))
      else if c =? ch_close then
        match ip_stack s with
        | [] => inr (Errored (total - Z.of_nat (length rest)) s)
        | target :: st' =>
            if ip_cur s =? 0 then inl (rest', ip_set_stack s st') else inl (target, s)
        end
      else inl (rest', s)
  end.

Lemma ip_exec_step : forall w e total f rest s,
  ip_exec w e false total (S f) rest s =
  match ip_step w e total rest s with
  | inl (rest', s') => ip_exec w e false total f rest' s'
  | inr o => o
  end.
Proof.
  intros. cbn [ip_exec]. unfold ip_step. destruct rest as [|c rest']; [reflexivity|].
  destruct (c =? ch_lt); [reflexivity|]. destruct (c =? ch_gt); [reflexivity|].
  destruct (c =? ch_plus); [reflexivity|]. destruct (c =? ch_minus); [reflexivity|].
  destruct (c =? ch_dot); [destruct (do_output e (ip_io s) (into_u8 w (ip_cur s))); reflexivity|].
  destruct (c =? ch_comma); [destruct (do_input e (ip_io s)); reflexivity|].
  destruct (c =? ch_open); [destruct (ip_cur s =? 0); reflexivity|].
  destruct (c =? ch_close); [|reflexivity].
  cbn [andb]. destruct (ip_stack s); [reflexivity|]. destruct (ip_cur s =? 0); reflexivity.
Qed.

(** ** the simulation relation *)
Inductive crel : list cmd -> list (list cmd * list cmd) -> list Z -> list (list Z) -> Prop :=
| CR_top : forall ctl rest, parses rest ctl [] -> crel ctl [] rest []
| CR_frame : forall ctl body krest k rest target r2 st,
    parses rest ctl (ch_close :: r2) -> parses target body (ch_close :: r2) ->
    crel krest k r2 st -> crel ctl ((body, krest) :: k) rest (target :: st).

Definition st_rel (b : bfst) (i : ipst) : Prop :=
  tape b = ip_tape i /\ ptr b = ip_ptr i /\ io b = ip_io i.

Definition rel (c : bfcfg) (rest : list Z) (i : ipst) : Prop :=
  crel (c_ctl c) (c_kont c) rest (ip_stack i) /\ st_rel (c_st c) i.

(** the text of a related configuration, whatever the frame *)
Lemma crel_parses : forall ctl k rest st, crel ctl k rest st -> exists a, parses rest ctl a /\
  ((k = [] /\ st = [] /\ a = []) \/
   (exists body krest k' target st' r2, k = (body, krest) :: k' /\ st = target :: st' /\ a = ch_close :: r2 /\
      parses target body (ch_close :: r2) /\ crel krest k' r2 st')).
Proof.
  intros ctl k rest st H. destruct H as [ctl rest H|ctl body krest k rest target r2 st H1 H2 H3].
  - exists []. split; [exact H|left; repeat split].
  - exists (ch_close :: r2). split; [exact H1|right]. repeat eexists; eassumption.
Qed.

(** rebuilding the relation with a new control / text in the same frame *)
Lemma crel_same_frame : forall ctl k rest st ctl' rest' a,
  crel ctl k rest st -> parses rest ctl a -> parses rest' ctl' a ->
  (forall a1 a2, parses rest ctl a1 -> parses rest ctl a2 -> a1 = a2) ->
  crel ctl' k rest' st.
Proof.
  intros ctl k rest st ctl' rest' a H P P' U.
  destruct H as [ctl rest H|ctl body krest k rest target r2 st H1 H2 H3].
  - rewrite (U _ _ P H) in P'. constructor. exact P'.
  - rewrite (U _ _ P H1) in P'. econstructor; eassumption.
Qed.

(** [parses] is functional in the text *)
Lemma parses_fun : forall text cs a, parses text cs a -> forall cs' a', parses text cs' a' -> cs = cs' /\ a = a'.
Proof.
  intros text cs a H. induction H as [|r|c x r cs a Ho Hc Hs Hp IH|c r cs a Ho Hc Hs Hp IH|r body r2 cs a H1 IH1 H2 IH2];
    intros cs' a' H'; inversion H'; subst; try (split; reflexivity);
    try (match goal with H : (ch_close =? ch_close) = false |- _ => discriminate H end);
    try (match goal with H : (ch_open =? ch_open) = false |- _ => discriminate H end);
    try congruence.
  - match goal with H : parses r _ _ |- _ => destruct (IH _ _ H) as [-> ->] end. split; congruence.
  - match goal with H : parses r _ _ |- _ => destruct (IH _ _ H) as [-> ->] end. split; reflexivity.
  - match goal with H : parses r _ (ch_close :: _) |- _ => destruct (IH1 _ _ H) as [-> E] end.
    injection E as ->.
    match goal with H : parses _ ?c ?x, IH2 : forall cs' a', parses _ cs' a' -> _ |- _ = Loop _ :: ?c /\ _ = ?x =>
      destruct (IH2 _ _ H) as [-> ->] end. split; reflexivity.
Qed.

Lemma crel_step : forall ctl k rest st ctl' rest' a,
  crel ctl k rest st -> parses rest ctl a -> parses rest' ctl' a -> crel ctl' k rest' st.
Proof.
  intros. eapply crel_same_frame; try eassumption.
  intros a1 a2 P1 P2. destruct (parses_fun _ _ _ P1 _ _ P2) as [_ E]. exact E.
Qed.

Lemma simple_of_tests : forall c, simple_of c = None ->
  (c =? ch_lt) = false /\ (c =? ch_gt) = false /\ (c =? ch_plus) = false /\ (c =? ch_minus) = false
  /\ (c =? ch_dot) = false /\ (c =? ch_comma) = false.
Proof.
  intros c H. unfold simple_of in H.
  destruct (c =? ch_plus); [discriminate|]. destruct (c =? ch_minus); [discriminate|].
  destruct (c =? ch_lt); [discriminate|]. destruct (c =? ch_gt); [discriminate|].
  destruct (c =? ch_dot); [discriminate|]. destruct (c =? ch_comma); [discriminate|]. repeat split.
Qed.

Lemma st_rel_cur : forall b i, st_rel b i -> cur b = ip_cur i.
Proof. intros b i [T [P _]]. unfold cur, ip_cur. rewrite T, P. reflexivity. Qed.

(** one in-place step is matched by one canonical step, or is a stutter that shortens the text *)
Lemma sim_step : forall w e total c rest i, rel c rest i ->
  match ip_step w e total rest i with
  | inl (rest', i') =>
      (exists c', bf_step w e c = Next c' /\ rel c' rest' i')
      \/ ((length rest' < length rest)%nat /\ rel c rest' i')
  | inr (Done i') => exists b', bf_step w e c = Final (Done b') /\ st_rel b' i'
  | inr (Stopped i') => exists b', bf_step w e c = Final (Stopped b') /\ st_rel b' i'
  | inr _ => False
  end.
Proof.
  intros w e total c rest i [CR SR]. destruct c as [ctl k b]. simpl in CR, SR.
  pose proof (st_rel_cur _ _ SR) as CUR. destruct SR as [ST [SP SI]].
  destruct (crel_parses _ _ _ _ CR) as [a [P FR]].
  inversion P as [|r|ch x r cs a0 Ho Hc Hs Hp|ch r cs a0 Ho Hc Hs Hp|r body r2 cs a0 H1 H2]; subst.
  - (* end of text *)
    destruct FR as [[-> [Hst _]]|[body [krest [k' [target [st' [r2 [_ [_ [E _]]]]]]]]]]; [|discriminate].
    simpl. exists b. split; [reflexivity|repeat split; assumption].
  - (* ']' *)
    destruct FR as [[_ [_ E]]|[body [krest [k' [target [st' [r2 [-> [Hst [E [PT CK]]]]]]]]]]]; [discriminate|].
    injection E as <-.
    unfold ip_step. change (ch_close =? ch_lt) with false. change (ch_close =? ch_gt) with false.
    change (ch_close =? ch_plus) with false. change (ch_close =? ch_minus) with false.
    change (ch_close =? ch_dot) with false. change (ch_close =? ch_comma) with false.
    change (ch_close =? ch_open) with false. change (ch_close =? ch_close) with true. cbv iota.
    rewrite Hst. unfold bf_step. cbn [c_ctl c_kont c_st]. rewrite <- CUR.
    destruct (cur b =? 0); left; eexists; (split; [reflexivity|]); split; simpl; try (repeat split; assumption).
    all: first [exact CK | rewrite Hst; econstructor; eassumption].
  - (* simple command *)
    assert (NX : crel cs k r (ip_stack i)) by (eapply crel_step; eassumption).
    unfold simple_of in Hs. unfold ip_step, bf_step. cbn [c_ctl c_kont c_st].
    destruct (ch =? ch_plus) eqn:E1.
    { apply Z.eqb_eq in E1. subst ch. injection Hs as <-. simpl. left. eexists. split; [reflexivity|].
      split; simpl; [exact NX|]. repeat split; simpl; try assumption. rewrite CUR, ST, SP. reflexivity. }
    destruct (ch =? ch_minus) eqn:E2.
    { apply Z.eqb_eq in E2. subst ch. injection Hs as <-. simpl. left. eexists. split; [reflexivity|].
      split; simpl; [exact NX|]. repeat split; simpl; try assumption. rewrite CUR, ST, SP. reflexivity. }
    destruct (ch =? ch_lt) eqn:E3.
    { apply Z.eqb_eq in E3. subst ch. injection Hs as <-. simpl. left. eexists. split; [reflexivity|].
      split; simpl; [exact NX|]. repeat split; simpl; try assumption. rewrite SP. reflexivity. }
    destruct (ch =? ch_gt) eqn:E4.
    { apply Z.eqb_eq in E4. subst ch. injection Hs as <-. simpl. left. eexists. split; [reflexivity|].
      split; simpl; [exact NX|]. repeat split; simpl; try assumption. rewrite SP. reflexivity. }
    destruct (ch =? ch_dot) eqn:E5.
    { apply Z.eqb_eq in E5. subst ch. injection Hs as <-. simpl. rewrite <- CUR, <- SI.
      destruct (do_output e (io b) (into_u8 w (cur b))) as [u io'|io'].
      - left. eexists. split; [reflexivity|]. split; simpl; [exact NX|]. repeat split; assumption.
      - eexists. split; [reflexivity|]. repeat split; assumption. }
    destruct (ch =? ch_comma) eqn:E6; [|discriminate].
    { apply Z.eqb_eq in E6. subst ch. injection Hs as <-. simpl. rewrite <- SI.
      destruct (do_input e (io b)) as [v io'|io'].
      - left. eexists. split; [reflexivity|]. split; simpl; [exact NX|]. repeat split; simpl; try assumption.
        rewrite ST, SP. reflexivity.
      - eexists. split; [reflexivity|]. repeat split; assumption. }
  - (* comment: the in-place machine alone advances *)
    destruct (simple_of_tests _ Hs) as [T1 [T2 [T3 [T4 [T5 T6]]]]].
    unfold ip_step. rewrite T1, T2, T3, T4, T5, T6, Ho, Hc.
    right. split; [simpl; lia|]. split; simpl; [|repeat split; assumption].
    eapply crel_step; eassumption.
  - (* '[' *)
    assert (NX : crel cs k r2 (ip_stack i)) by (eapply crel_step; eassumption).
    unfold ip_step. change (ch_open =? ch_lt) with false. change (ch_open =? ch_gt) with false.
    change (ch_open =? ch_plus) with false. change (ch_open =? ch_minus) with false.
    change (ch_open =? ch_dot) with false. change (ch_open =? ch_comma) with false.
    change (ch_open =? ch_open) with true. cbv iota.
    unfold bf_step. cbn [c_ctl c_kont c_st]. rewrite <- CUR.
    destruct (cur b =? 0).
    + rewrite (scan_skips_matching _ _ _ H1). left. eexists. split; [reflexivity|].
      split; simpl; [exact NX|repeat split; assumption].
    + left. eexists. split; [reflexivity|]. split; simpl; [|repeat split; assumption].
      econstructor; eassumption.
Qed.

(** ** runs *)
Lemma bf_steps_next : forall w e n c c', bf_step w e c = Next c' -> bf_steps w e (S n) c = bf_steps w e n c'.
Proof. intros. simpl. rewrite H. reflexivity. Qed.

Lemma bf_steps_final : forall w e n c o, bf_step w e c = Final o -> bf_steps w e (S n) c = o.
Proof. intros. simpl. rewrite H. reflexivity. Qed.

Definition same_result (ob : outcome bfst) (oi : outcome ipst) : Prop :=
  match ob, oi with
  | Done b, Done i => st_rel b i
  | Stopped b, Stopped i => st_rel b i
  | _, _ => False
  end.

Definition halted {A} (o : outcome A) : Prop := match o with Done _ | Stopped _ => True | _ => False end.

(** the in-place run ends => the canonical run ends the same way *)
Theorem inplace_to_canonical : forall w e total m c rest i, rel c rest i ->
  halted (ip_exec w e false total m rest i) ->
  exists n, same_result (bf_steps w e n c) (ip_exec w e false total m rest i).
Proof.
  intros w e total. induction m as [|m IH]; intros c rest i R H; [simpl in H; contradiction|].
  rewrite ip_exec_step in *. pose proof (sim_step w e total c rest i R) as S.
  destruct (ip_step w e total rest i) as [[rest' i']|o].
  - destruct S as [[c' [Hs R']]|[_ R']].
    + destruct (IH c' rest' i' R' H) as [n Hn]. exists (S n). rewrite (bf_steps_next _ _ _ _ _ Hs). exact Hn.
    + exact (IH c rest' i' R' H).
  - destruct o as [i'|i'|i'|p i'|i']; try contradiction.
    + destruct S as [b' [Hs Hr]]. exists 1%nat. rewrite (bf_steps_final _ _ _ _ _ Hs). exact Hr.
    + destruct S as [b' [Hs Hr]]. exists 1%nat. rewrite (bf_steps_final _ _ _ _ _ Hs). exact Hr.
Qed.

(** the canonical run ends => the in-place run ends the same way (stuttering on comment bytes is
    bounded by the length of the remaining text) *)
Theorem canonical_to_inplace : forall w e total n c rest i, rel c rest i ->
  halted (bf_steps w e n c) ->
  exists m, same_result (bf_steps w e n c) (ip_exec w e false total m rest i).
Proof.
  intros w e total. induction n as [|n IH]; intros c rest i R H; [simpl in H; contradiction|].
  remember (length rest) as len eqn:L. revert rest i R L.
  induction len as [len IHlen] using lt_wf_ind. intros rest i R L.
  pose proof (sim_step w e total c rest i R) as S.
  destruct (ip_step w e total rest i) as [[rest' i']|o] eqn:ST.
  - destruct S as [[c' [Hs R']]|[Hlt R']].
    + rewrite (bf_steps_next _ _ _ _ _ Hs) in *. destruct (IH c' rest' i' R' H) as [m Hm].
      exists (S m). rewrite ip_exec_step, ST. exact Hm.
    + destruct (IHlen (length rest') ltac:(lia) rest' i' R' eq_refl) as [m Hm].
      exists (S m). rewrite ip_exec_step, ST. exact Hm.
  - destruct o as [i'|i'|i'|p i'|i']; try contradiction.
    + destruct S as [b' [Hs Hr]]. rewrite (bf_steps_final _ _ _ _ _ Hs). exists 1%nat. rewrite ip_exec_step, ST. exact Hr.
    + destruct S as [b' [Hs Hr]]. rewrite (bf_steps_final _ _ _ _ _ Hs). exists 1%nat. rewrite ip_exec_step, ST. exact Hr.
Qed.

(** while both are still running, the in-place events are always events of the canonical run:
    after [m] in-place steps the configuration is related to the canonical one after some [n <= m] *)
Theorem inplace_prefix : forall w e total m c rest i, rel c rest i ->
  (exists n c' rest' i', (n <= m)%nat /\ bf_cfg_after w e n c = Some c' /\ rel c' rest' i' /\
        ip_exec w e false total m rest i = OutOfFuel i')
  \/ halted (ip_exec w e false total m rest i).
Proof.
  intros w e total. induction m as [|m IH]; intros c rest i R.
  - left. exists 0%nat, c, rest, i. repeat split; try apply R; try reflexivity; try lia.
  - rewrite ip_exec_step. pose proof (sim_step w e total c rest i R) as S.
    destruct (ip_step w e total rest i) as [[rest' i']|o].
    + destruct S as [[c' [Hs R']]|[_ R']].
      * destruct (IH c' rest' i' R') as [[n [c2 [r2 [i2 [Hn [Hc [Hr He]]]]]]]|Hh]; [left|right; exact Hh].
        exists (S n), c2, r2, i2. repeat split; try apply Hr; try assumption; try lia. simpl. rewrite Hs. exact Hc.
      * destruct (IH c rest' i' R') as [[n [c2 [r2 [i2 [Hn [Hc [Hr He]]]]]]]|Hh]; [left|right; exact Hh].
        exists n, c2, r2, i2. repeat split; try apply Hr; try assumption; try lia.
    + right. destruct o; try contradiction; exact I.
Qed.

Theorem inplace_canonical : forall w e src p, ast_of_source src = Some p ->
  let c0 := {| c_ctl := p; c_kont := []; c_st := bf0 |} in
  (forall m, halted (ip_run w e false 0 m src) -> exists n, same_result (bf_steps w e n c0) (ip_run w e false 0 m src))
  /\ (forall n, halted (bf_steps w e n c0) -> exists m, same_result (bf_steps w e n c0) (ip_run w e false 0 m src)).
Proof.
  intros w e src p H c0.
  assert (R : rel c0 src (ip0 0)).
  { split; simpl; [constructor; apply ast_parses; exact H|repeat split]. }
  split; intros k Hk.
  - apply inplace_to_canonical; assumption.
  - apply canonical_to_inplace; assumption.
Qed.

(** no byte string makes the in-place machine's step undefined: the only error is an unopened ']' *)
Theorem inplace_total : forall w e total rest s,
  match ip_step w e total rest s with
  | inr (Errored _ _) => exists r, rest = ch_close :: r /\ ip_stack s = []
  | inr (OutOfFuel _) | inr (Interrupted _) => False
  | _ => True
  end.
Proof.
  intros. unfold ip_step. destruct rest as [|c r]; [exact I|].
  destruct (c =? ch_lt); [exact I|]. destruct (c =? ch_gt); [exact I|].
  destruct (c =? ch_plus); [exact I|]. destruct (c =? ch_minus); [exact I|].
  destruct (c =? ch_dot); [destruct (do_output e (ip_io s) (into_u8 w (ip_cur s))); exact I|].
  destruct (c =? ch_comma); [destruct (do_input e (ip_io s)); exact I|].
  destruct (c =? ch_open); [destruct (ip_cur s =? 0); exact I|].
  destruct (c =? ch_close) eqn:E; [|exact I].
  apply Z.eqb_eq in E. subst c.
  destruct (ip_stack s); [eexists; split; reflexivity|]. destruct (ip_cur s =? 0); exact I.
Qed.

(** * ExprShape.v — the representation invariant of [ir::Expr] that the structural
    decompositions rely on, and its preservation by every public operation (property C15).

    [Expr] keeps a list of parts; [add] merges two lists as if they were sorted by variable
    list, but products with a single part append variables without re-sorting the list, so
    reachable lists are in general NOT sorted.  What does hold for every expression built
    through the public API is the weaker invariant [J]: every part with at most one variable
    (a constant part or a bare variable) is strictly greater than every part before it.
    [J] implies the two shape hypotheses of the decomposition lemmas of ExprProofs.v
    ([singles_unique], [const_first]). *)

From Coq Require Import ZArith List Bool Lia Permutation.
From HPBF Require Import Cell Expr CellProofs ExprProofs.
Import ListNotations.
Open Scope Z_scope.

(** ** [lcmp] is a strict total order *)
Lemma lcmp_refl : forall a, lcmp a a = Eq.
Proof. induction a as [|x a IH]; [reflexivity|]. simpl. rewrite Z.compare_refl. exact IH. Qed.

Lemma lcmp_opp : forall a b, lcmp b a = CompOpp (lcmp a b).
Proof.
  induction a as [|x a IH]; intros [|y b]; simpl; try reflexivity.
  rewrite (Z.compare_antisym x y). destruct (x ?= y); simpl; [apply IH|reflexivity|reflexivity].
Qed.

Lemma lcmp_lt_trans : forall a b c, lcmp a b = Lt -> lcmp b c = Lt -> lcmp a c = Lt.
Proof.
  induction a as [|x a IH]; intros [|y b] [|z c] H1 H2; simpl in *; try discriminate; try reflexivity.
  destruct (Z.compare_spec x y) as [E|L|G]; try discriminate;
  destruct (Z.compare_spec y z) as [E2|L2|G2]; try discriminate;
  destruct (Z.compare_spec x z) as [E3|L3|G3]; try lia; try reflexivity.
  eapply IH; eassumption.
Qed.

Definition lle (a b : list Z) : Prop := lcmp a b <> Gt.

Lemma lle_lt_or_eq : forall a b, lle a b -> lcmp a b = Lt \/ a = b.
Proof. intros a b H. unfold lle in H. destruct (lcmp a b) eqn:C; [right; apply lcmp_eq; exact C|left; reflexivity|congruence]. Qed.

Lemma lt_lle_trans : forall a b c, lcmp a b = Lt -> lle b c -> lcmp a c = Lt.
Proof. intros a b c H1 H2. destruct (lle_lt_or_eq _ _ H2) as [L| ->]; [eapply lcmp_lt_trans; eassumption|exact H1]. Qed.

Lemma lle_trans : forall a b c, lle a b -> lle b c -> lle a c.
Proof.
  intros a b c H1 H2. destruct (lle_lt_or_eq _ _ H1) as [L| ->]; [|exact H2].
  unfold lle. rewrite (lt_lle_trans _ _ _ L H2). discriminate.
Qed.

Lemma lcmp_nil_r : forall a, lcmp a [] <> Lt.
Proof. destruct a; simpl; discriminate. Qed.

(** ** the invariant *)
Definition small (p : part) : bool := (length (snd p) <=? 1)%nat.

Fixpoint J (l : expr) : Prop :=
  match l with
  | [] => True
  | p :: t => (forall q, In q t -> small q = true -> lcmp (snd p) (snd q) = Lt) /\ J t
  end.

(** strictly sorted lists satisfy it *)
Fixpoint SS (l : expr) : Prop :=
  match l with
  | [] => True
  | p :: t => (forall q, In q t -> lcmp (snd p) (snd q) = Lt) /\ SS t
  end.

Lemma SS_J : forall l, SS l -> J l.
Proof. induction l as [|p t IH]; [trivial|]. intros [H S]. split; [intros q Hq _; apply H; exact Hq|apply IH; exact S]. Qed.

Lemma J_filter : forall f l, J l -> J (filter f l).
Proof.
  intros f. induction l as [|p t IH]; [trivial|]. intros [H Jt]. cbn [filter].
  destruct (f p); [|apply IH; exact Jt]. split; [|apply IH; exact Jt].
  intros q Hq Sq. apply filter_In in Hq. apply H; [apply Hq|exact Sq].
Qed.

Lemma small_vars : forall p q, snd p = snd q -> small p = small q.
Proof. intros p q E. unfold small. rewrite E. reflexivity. Qed.

Lemma J_vars : forall l l', map snd l = map snd l' -> J l -> J l'.
Proof.
  induction l as [|p t IH]; intros [|p' t'] E; try discriminate; [trivial|].
  cbn [map] in E. injection E as E1 E2. intros [H Jt]. split; [|apply (IH _ E2 Jt)].
  intros q' Hq' Sq'. apply (in_map snd) in Hq'. rewrite <- E2 in Hq'. apply in_map_iff in Hq'.
  destruct Hq' as (q & Eq & Hq). rewrite <- E1, <- Eq. apply H; [exact Hq|]. rewrite (small_vars q q' Eq). exact Sq'.
Qed.

Lemma J_singles : forall v l, J l -> singles_unique v l.
Proof.
  intros v. unfold singles_unique. induction l as [|p t IH]; [simpl; lia|]. intros [H Jt]. cbn [filter].
  destruct (is_single v p) eqn:S; [|apply IH; exact Jt].
  assert (E : filter (is_single v) t = []).
  { destruct (filter (is_single v) t) as [|q r] eqn:F; [reflexivity|exfalso].
    assert (Hq : In q (filter (is_single v) t)) by (rewrite F; left; reflexivity).
    apply filter_In in Hq. destruct Hq as [Hq Sq].
    pose proof (is_single_spec _ _ S) as Ep. pose proof (is_single_spec _ _ Sq) as Eq.
    assert (L : lcmp (snd p) (snd q) = Lt) by (apply H; [exact Hq|unfold small; rewrite Eq; reflexivity]).
    rewrite Ep, Eq, lcmp_refl in L. discriminate. }
  rewrite E. simpl. lia.
Qed.

Lemma J_const_first : forall l, J l -> const_first l.
Proof.
  intros [|p t]; [intros _ q []|]. intros [H _] q Hq E. cbn [tl] in Hq.
  apply (lcmp_nil_r (snd p)). rewrite <- E. apply H; [exact Hq|unfold small; rewrite E; reflexivity].
Qed.

(** ** add *)
Section Ops.
Variable w : Z.

Lemma add_vars_in : forall a b q, In q (e_add w a b) -> exists q', (In q' a \/ In q' b) /\ snd q' = snd q.
Proof.
  induction a as [|pa a' IHa]; intros b q H.
  - cbn [e_add] in H. exists q. split; [right; exact H|reflexivity].
  - induction b as [|pb b' IHb].
    + rewrite e_add_nil_r in H. exists q. split; [left; exact H|reflexivity].
    + rewrite e_add_cons in H. destruct (lcmp (snd pa) (snd pb)) eqn:C.
      * cbv zeta in H.
        assert (R : In q (e_add w a' b') -> exists q', (In q' (pa :: a') \/ In q' (pb :: b')) /\ snd q' = snd q).
        { intros Hq. destruct (IHa _ _ Hq) as (q' & [I|I] & E); exists q'; (split; [|exact E]); [left; right; exact I|right; right; exact I]. }
        destruct (wadd w (fst pa) (fst pb) =? 0); [exact (R H)|].
        destruct H as [<-|H]; [exists pa; split; [left; left; reflexivity|reflexivity]|exact (R H)].
      * destruct H as [<-|H]; [exists pa; split; [left; left; reflexivity|reflexivity]|].
        destruct (IHa _ _ H) as (q' & [I|I] & E); exists q'; (split; [|exact E]); [left; right; exact I|right; exact I].
      * destruct H as [<-|H]; [exists pb; split; [right; left; reflexivity|reflexivity]|].
        destruct (IHb H) as (q' & [I|I] & E); exists q'; (split; [|exact E]); [left; exact I|right; right; exact I].
Qed.

Lemma J_add : forall a b, J a -> J b -> J (e_add w a b).
Proof.
  induction a as [|pa a' IHa]; intros b Ja Jb; [exact Jb|].
  induction b as [|pb b' IHb]; [rewrite e_add_nil_r; exact Ja|].
  rewrite e_add_cons. pose proof Ja as [Ha Ja']. pose proof Jb as [Hb Jb'].
  destruct (lcmp (snd pa) (snd pb)) eqn:C.
  - pose proof (lcmp_eq _ _ C) as EV. cbv zeta.
    assert (T : forall q, In q (e_add w a' b') -> small q = true -> lcmp (snd pa) (snd q) = Lt).
    { intros q Hq Sq. destruct (add_vars_in _ _ _ Hq) as (q' & [I|I] & E); rewrite <- E.
      - apply Ha; [exact I|rewrite (small_vars q' q E); exact Sq].
      - rewrite EV. apply Hb; [exact I|rewrite (small_vars q' q E); exact Sq]. }
    destruct (wadd w (fst pa) (fst pb) =? 0); [apply IHa; assumption|].
    split; [exact T|apply IHa; assumption].
  - split; [|apply IHa; [exact Ja'|exact Jb]].
    intros q Hq Sq. destruct (add_vars_in _ _ _ Hq) as (q' & [I|I] & E); rewrite <- E;
      pose proof (small_vars q' q E) as SV; rewrite <- SV in Sq.
    + apply Ha; [exact I|exact Sq].
    + destruct I as [<-|I]; [exact C|]. eapply lcmp_lt_trans; [exact C|apply Hb; [exact I|exact Sq]].
  - assert (G : lcmp (snd pb) (snd pa) = Lt) by (rewrite lcmp_opp, C; reflexivity).
    split; [|apply IHb; exact Jb'].
    intros q Hq Sq. destruct (add_vars_in _ _ _ Hq) as (q' & [I|I] & E); rewrite <- E;
      pose proof (small_vars q' q E) as SV; rewrite <- SV in Sq.
    + destruct I as [<-|I]; [exact G|]. eapply lcmp_lt_trans; [exact G|apply Ha; [exact I|exact Sq]].
    + apply Hb; [exact I|exact Sq].
Qed.

(** ** products with a single part *)
Lemma J_map_scale : forall (f : part -> Z) (q : part) ps, J ps -> J (map (fun p => (f p, snd p ++ snd q)) ps).
Proof.
  intros f q ps Jp. destruct (snd q) as [|y ys] eqn:EQ.
  - apply (J_vars ps); [|exact Jp]. rewrite map_map. apply map_ext. intros p. cbn [snd]. rewrite app_nil_r. reflexivity.
  - induction ps as [|p t IH]; [trivial|]. destruct Jp as [H Jt]. cbn [map]. split; [|apply IH; exact Jt].
    intros q' Hq' Sq'. apply in_map_iff in Hq'. destruct Hq' as (p' & <- & Hp'). exfalso.
    unfold small in Sq'. cbn [snd] in Sq'. rewrite app_length in Sq'. cbn [length] in Sq'.
    assert (E : snd p' = []) by (destruct (snd p'); [reflexivity|cbn [length] in Sq'; apply Nat.leb_le in Sq'; lia]).
    apply (lcmp_nil_r (snd p)). rewrite <- E. apply H; [exact Hp'|unfold small; rewrite E; reflexivity].
Qed.

Lemma J_scale : forall ps q, J ps -> J (scale_parts w ps q).
Proof. intros ps q Jp. unfold scale_parts. apply J_filter. apply (J_map_scale (fun p => wmul w (fst p) (fst q)) q ps Jp). Qed.

(** ** sorting: [sort_parts] of parts with pairwise different variable lists is strictly sorted *)
Fixpoint WS (l : expr) : Prop :=
  match l with
  | [] => True
  | p :: t => (forall q, In q t -> lle (snd p) (snd q)) /\ WS t
  end.

Lemma insert_part_in : forall p l x, In x (insert_part p l) <-> x = p \/ In x l.
Proof.
  intros p l x. split; intros H.
  - apply (Permutation_in _ (insert_part_perm p l)) in H. destruct H as [<-|H]; [left; reflexivity|right; exact H].
  - apply (Permutation_in _ (Permutation_sym (insert_part_perm p l))). destruct H as [->|H]; [left; reflexivity|right; exact H].
Qed.

Lemma insert_part_WS : forall p l, WS l -> WS (insert_part p l).
Proof.
  intros p. induction l as [|q t IH]; intros W; [simpl; split; [intros ? []|trivial]|].
  destruct W as [H Wt]. cbn [insert_part]. destruct (lcmp (snd p) (snd q)) eqn:C.
  - split; [|split; assumption]. intros x [<-|Hx]; [unfold lle; rewrite C; discriminate|].
    apply (lle_trans _ (snd q)); [unfold lle; rewrite C; discriminate|apply H; exact Hx].
  - split; [|split; assumption]. intros x [<-|Hx]; [unfold lle; rewrite C; discriminate|].
    apply (lle_trans _ (snd q)); [unfold lle; rewrite C; discriminate|apply H; exact Hx].
  - split; [|apply IH; exact Wt]. intros x Hx. apply insert_part_in in Hx. destruct Hx as [->|Hx]; [|apply H; exact Hx].
    unfold lle. rewrite lcmp_opp, C. discriminate.
Qed.

Lemma sort_parts_WS : forall l, WS (sort_parts l).
Proof. induction l as [|p t IH]; [exact I|]. unfold sort_parts. cbn [fold_right]. apply insert_part_WS. exact IH. Qed.

Lemma WS_NoDup_SS : forall l, WS l -> NoDup (map snd l) -> SS l.
Proof.
  induction l as [|p t IH]; [trivial|]. intros [H Wt] N. cbn [map] in N. inversion N as [|? ? NI N']. subst.
  split; [|apply IH; assumption]. intros q Hq. destruct (lle_lt_or_eq _ _ (H q Hq)) as [L|E]; [exact L|].
  exfalso. apply NI. rewrite E. apply in_map. exact Hq.
Qed.

Lemma sort_parts_J : forall l, NoDup (map snd l) -> J (sort_parts l).
Proof.
  intros l N. apply SS_J. apply WS_NoDup_SS; [apply sort_parts_WS|].
  apply (Permutation_NoDup (l := map snd l)); [|exact N]. apply Permutation_map. apply Permutation_sym. apply sort_parts_perm.
Qed.

(** association maps built with [acc_add] have pairwise different keys *)
Lemma acc_add_keys : forall k c m, NoDup (map fst m) -> NoDup (map fst (acc_add w k c m)) /\
  (forall x, In x (map fst (acc_add w k c m)) -> x = k \/ In x (map fst m)).
Proof.
  intros k c. induction m as [|[k' c'] m IH]; intros N.
  - simpl. split; [constructor; [intros []|constructor]|intros x [<-|[]]; left; reflexivity].
  - cbn [acc_add]. destruct (list_eqb k k') eqn:E.
    + cbn [map fst] in *. split; [exact N|intros x Hx; right; exact Hx].
    + cbn [map fst] in *. inversion N as [|? ? NI N']. subst. destruct (IH N') as [N2 I2]. split.
      * constructor; [|exact N2]. intros Hin. destruct (I2 _ Hin) as [->|Hm]; [rewrite list_eqb_refl in E; discriminate|apply NI; exact Hm].
      * intros x [<-|Hx]; [right; left; reflexivity|]. destruct (I2 _ Hx) as [->|Hm]; [left; reflexivity|right; right; exact Hm].
Qed.

Lemma acc_add_nodup : forall k c m, NoDup (map fst m) -> NoDup (map fst (acc_add w k c m)).
Proof. intros k c m N. apply (acc_add_keys k c m N). Qed.

Lemma fold_acc_nodup : forall {A} (key : A -> list Z) (val : A -> Z) (l : list A) m, NoDup (map fst m) ->
  NoDup (map fst (fold_left (fun m x => acc_add w (key x) (val x) m) l m)).
Proof. intros A key val. induction l as [|x l IH]; intros m N; [exact N|]. cbn [fold_left]. apply IH. apply acc_add_nodup. exact N. Qed.

Lemma nodup_map_filter : forall {A B} (f : A -> B) (g : A -> bool) l, NoDup (map f l) -> NoDup (map f (filter g l)).
Proof.
  intros A B f g. induction l as [|x l IH]; intros N; [exact N|]. cbn [map] in N. inversion N as [|? ? NI N']. subst.
  cbn [filter]. destruct (g x); [|apply IH; exact N']. cbn [map]. constructor; [|apply IH; exact N'].
  intros Hin. apply NI. apply in_map_iff in Hin. destruct Hin as (y & E & Hy). apply filter_In in Hy. rewrite <- E. apply in_map. apply Hy.
Qed.

Lemma amap_parts_J : forall m, NoDup (map fst m) -> J (amap_parts m).
Proof.
  intros m N. unfold amap_parts. apply sort_parts_J. apply nodup_map_filter. rewrite map_map. cbn [snd].
  rewrite (map_ext _ fst); [exact N|]. intros [k c]. reflexivity.
Qed.

Lemma J_mul : forall a b, J a -> J b -> J (e_mul w a b).
Proof.
  intros a b Ja Jb. unfold e_mul.
  destruct a as [|pa [|pa2 a]]; [exact I| |].
  - destruct b as [|pb b]; [exact I|]. apply J_scale. exact Jb.
  - destruct b as [|pb [|pb2 b]]; [exact I|apply J_scale; exact Ja|].
    unfold mul_general. apply amap_parts_J.
    generalize (pb :: pb2 :: b) as bb. generalize (pa :: pa2 :: a) as aa. intros aa bb.
    assert (G : forall (l : expr) m, NoDup (map fst m) ->
              NoDup (map fst (fold_left (fun m pa0 => fold_left (fun m pb0 => acc_add w (sort_z (snd pa0 ++ snd pb0)) (wmul w (fst pa0) (fst pb0)) m) bb m) l m))).
    { induction l as [|x l IH]; intros m N; [exact N|]. cbn [fold_left]. apply IH.
      apply (fold_acc_nodup (fun pb0 => sort_z (snd x ++ snd pb0)) (fun pb0 => wmul w (fst x) (fst pb0))). exact N. }
    apply G. constructor.
Qed.

Lemma J_neg : forall a, J a -> J (e_neg w a).
Proof. intros a Ja. apply (J_vars a); [|exact Ja]. unfold e_neg. rewrite map_map. reflexivity. Qed.

Lemma J_half : forall a h, J a -> e_half w a = Some h -> J h.
Proof.
  intros a h Ja H. unfold e_half in H. match type of H with (if ?c then _ else _) = _ => destruct c end; [|discriminate]. injection H as <-.
  apply (J_vars a); [|exact Ja]. rewrite map_map. reflexivity.
Qed.

Lemma J_val : forall c, J (e_val c).
Proof. intros c. unfold e_val. destruct (c =? 0); simpl; [trivial|split; [intros ? []|trivial]]. Qed.

Lemma J_var : forall v, J (e_var v).
Proof. intros v. simpl. split; [intros ? []|trivial]. Qed.
(** ** normalisation *)
Lemma dedup_length_le : forall l, (length (dedup l) <= length l)%nat.
Proof.
  induction l as [|x t IH]; [simpl; lia|]. destruct t as [|y t']; [simpl; lia|].
  change (dedup (x :: y :: t')) with (if x =? y then dedup (y :: t') else x :: dedup (y :: t')).
  destruct (x =? y); cbn [length] in *; lia.
Qed.

Lemma dedup_same_len : forall l, length (dedup l) = length l -> dedup l = l.
Proof.
  induction l as [|x t IH]; [reflexivity|]. destruct t as [|y t']; [reflexivity|].
  change (dedup (x :: y :: t')) with (if x =? y then dedup (y :: t') else x :: dedup (y :: t')).
  pose proof (dedup_length_le (y :: t')) as LE.
  destruct (x =? y); intros H; cbn [length] in *; [lia|]. f_equal. apply IH. lia.
Qed.

Lemma chunk_SS : forall l h, WS l -> (forall q, In q l -> lle (snd h) (snd q)) ->
  exists c rest, chunk_sum w (Some h) l = (c, snd h) :: rest /\ SS ((c, snd h) :: rest) /\
                 (forall x, In x rest -> exists q, In q l /\ snd x = snd q).
Proof.
  induction l as [|p t IH]; intros h W H.
  - exists (fst h), []. cbn [chunk_sum]. destruct h as [c vs]. cbn [fst snd]. split; [reflexivity|].
    split; [split; [intros ? []|exact I]|intros ? []].
  - destruct W as [Hp Wt]. cbn [chunk_sum]. destruct (list_eqb (snd h) (snd p)) eqn:E.
    + destruct (IH (wadd w (fst h) (fst p), snd h) Wt) as (c & rest & E1 & S1 & R1).
      { cbn [snd]. intros q Hq. apply H. right. exact Hq. }
      cbn [snd] in *. exists c, rest. split; [exact E1|]. split; [exact S1|].
      intros x Hx. destruct (R1 x Hx) as (q & Hq & Eq). exists q. split; [right; exact Hq|exact Eq].
    + destruct (IH p Wt Hp) as (c & rest & E1 & S1 & R1).
      assert (LT : lcmp (snd h) (snd p) = Lt).
      { destruct (lle_lt_or_eq _ _ (H p (or_introl eq_refl))) as [L|Eq]; [exact L|].
        exfalso. apply (list_eqb_neq _ _ E). exact Eq. }
      exists (fst h), ((c, snd p) :: rest). destruct h as [ch vh]. cbn [fst snd] in *.
      split; [f_equal; exact E1|]. split.
      * split; [|exact S1]. intros x [<-|Hx]; [exact LT|].
        destruct (R1 x Hx) as (q & Hq & Eq). rewrite Eq. apply (lt_lle_trans _ (snd p)); [exact LT|apply Hp; exact Hq].
      * intros x [<-|Hx]; [exists p; split; [left; reflexivity|reflexivity]|].
        destruct (R1 x Hx) as (q & Hq & Eq). exists q. split; [right; exact Hq|exact Eq].
Qed.

Lemma chunk_SS_none : forall l, WS l -> SS (chunk_sum w None l).
Proof.
  intros [|p t] W; [exact I|]. destruct W as [Hp Wt].
  destruct (chunk_SS t p Wt Hp) as (c & rest & E1 & S1 & _).
  assert (X : chunk_sum w None (p :: t) = (c, snd p) :: rest) by exact E1. rewrite X. exact S1.
Qed.

Lemma combine_map_in : forall {A B} (g : A -> B) l p, In p l -> In (p, g p) (combine l (map g l)).
Proof. intros A B g. induction l as [|x l IH]; intros p []; cbn [map combine]; [left; subst; reflexivity|right; apply IH; assumption]. Qed.

Lemma J_phase1 : forall a, J a -> J (norm_phase1 w a).
Proof.
  intros a Ja. unfold norm_phase1. cbv zeta.
  match goal with |- context [if ?c then _ else _] => destruct c end; [|exact Ja].
  match goal with |- context [combine a (map ?gg a)] => set (g := gg) end.
  match goal with |- context [existsb ?f (combine a (map g a))] => destruct (existsb f (combine a (map g a))) eqn:N end.
  - apply J_filter. apply SS_J. apply chunk_SS_none. apply sort_parts_WS.
  - apply (J_vars a); [|exact Ja]. rewrite map_map. apply map_ext_in. intros p Hp.
    assert (L : length (snd p) = length (snd (g p))).
    { destruct (Nat.eqb_spec (length (snd p)) (length (snd (g p)))) as [E|NE]; [exact E|exfalso].
      assert (X : existsb (fun pq : part * part => negb (length (snd (fst pq)) =? length (snd (snd pq)))%nat) (combine a (map g a)) = true).
      { apply existsb_exists. exists (p, g p). split; [apply combine_map_in; exact Hp|]. cbn [fst snd].
        apply negb_true_iff. apply Nat.eqb_neq. exact NE. }
      exact (eq_true_false_abs _ X N). }
    unfold g in *. destruct (fst p =? half_mod w); [|reflexivity]. cbn [snd] in *. symmetry. apply dedup_same_len. symmetry. exact L.
Qed.

Lemma phase2_inner_vars : forall i others pn, map snd (fst (phase2_inner w i others pn)) = map snd (fst pn).
Proof.
  intros i. unfold phase2_inner. induction others as [|j others IH]; intros [ps nd]; cbn [fold_left]; [reflexivity|].
  cbn [fst snd]. destruct (norm_cond w (coef_at ps i) (coef_at ps j)).
  - cbv zeta. rewrite IH. cbn [fst]. rewrite !upd_coef_vars. reflexivity.
  - rewrite IH. reflexivity.
Qed.

Lemma phase2_step_vars : forall st i, map snd (fst (fst (phase2_step w st i))) = map snd (fst (fst st)).
Proof.
  intros [[parts br] need] i. unfold phase2_step. cbn [fst snd].
  destruct (length (vars_at parts i) =? 0)%nat; [reflexivity|].
  destruct (assoc_l (dedup (vars_at parts i)) br); cbn [fst snd]; [|reflexivity].
  rewrite phase2_inner_vars. reflexivity.
Qed.

Lemma phase2_fold_vars : forall l st, map snd (fst (fst (fold_left (phase2_step w) l st))) = map snd (fst (fst st)).
Proof. induction l as [|i l IH]; intros st; [reflexivity|]. cbn [fold_left]. rewrite IH. apply phase2_step_vars. Qed.

Lemma J_phase2 : forall a, J a -> J (norm_phase2 w a).
Proof.
  intros a Ja. unfold norm_phase2. cbv zeta.
  match goal with |- context [if ?c then _ else _] => destruct c end; [|exact Ja].
  assert (V : J (fst (fst (fold_left (phase2_step w) (seq 0 (length a)) (a, [], false))))).
  { apply (J_vars a); [|exact Ja]. rewrite phase2_fold_vars. reflexivity. }
  match goal with |- context [if ?c then _ else _] => destruct c end; [apply J_filter; exact V|exact V].
Qed.

Lemma J_normalize : forall a, J a -> J (e_normalize w a).
Proof.
  intros a Ja. unfold e_normalize.
  match goal with |- context [if ?c then _ else _] => destruct c end; [|exact Ja].
  apply J_phase2. apply J_phase1. exact Ja.
Qed.

(** ** substitution: the result is the identity's image, a constant, or a sorted key map *)
Lemma J_symb : forall a f r, (forall v e, f v = Some e -> J e) -> e_symb_evaluate w a f = Some r -> J r.
Proof.
  intros a f r Hf H. unfold e_symb_evaluate in H.
  destruct (e_identity a) as [v|]; [exact (Hf v r H)|].
  destruct (e_constant a) as [c|]; [injection H as <-; apply J_val|].
  match type of H with match fold_left ?step a (Some []) with _ => _ end = _ => set (st := step) in H end.
  destruct (fold_left st a (Some [])) as [m|] eqn:F; [|discriminate]. injection H as <-.
  apply amap_parts_J.
  set (ok := fun acc : option amap => match acc with Some m0 => NoDup (map fst m0) | None => True end).
  assert (ST : forall acc p, ok acc -> ok (st acc p)).
  { intros [m0|] p N; [|exact I]. unfold st, ok in *. destruct (snd p) as [|v [|v2 vs]].
    - apply acc_add_nodup. exact N.
    - destruct (f v) as [ev|]; [|exact I].
      apply (fold_acc_nodup (fun vp : part => snd vp) (fun vp : part => wmul w (fst p) (fst vp))). exact N.
    - destruct (f v) as [ev|]; [|exact I].
      match goal with |- context [fold_left ?g (v2 :: vs) (Some ev)] => destruct (fold_left g (v2 :: vs) (Some ev)) as [partial|] end; [|exact I].
      apply (fold_acc_nodup (fun vp : part => snd vp) (fun vp : part => wmul w (fst p) (fst vp))). exact N. }
  assert (FO : forall l acc, ok acc -> ok (fold_left st l acc)).
  { induction l as [|p l IH]; intros acc N; [exact N|]. cbn [fold_left]. apply IH. apply ST. exact N. }
  pose proof (FO a (Some []) (NoDup_nil _)) as R. rewrite F in R. exact R.
Qed.

(** ** decompositions *)
Lemma J_inc_of : forall a v r, J a -> e_inc_of a v = Some r -> J r.
Proof.
  intros a v r Ja H. unfold e_inc_of in H.
  match type of H with (if ?c then _ else _) = _ => destruct c end; [|discriminate]. injection H as <-. apply J_filter. exact Ja.
Qed.

Lemma J_prod_inc_of : forall a v r m, J a -> e_prod_inc_of a v = Some (r, m) -> J r.
Proof.
  intros a v r m Ja H. unfold e_prod_inc_of in H.
  match type of H with (if ?c then _ else _) = _ => destruct c end; [|discriminate]. injection H as <- _. apply J_filter. exact Ja.
Qed.

Lemma J_prod_of : forall a v r, e_prod_of w a v = Some r -> J r.
Proof.
  intros a v r H. unfold e_prod_of in H.
  match type of H with (if ?c then _ else _) = _ => destruct c end; [|discriminate]. injection H as <-.
  assert (G : forall l acc, J acc -> J (fold_left (fun acc p => e_add w acc [(fst p, remove_var v (snd p))]) l acc)).
  { induction l as [|p l IH]; intros acc Ja; [exact Ja|]. cbn [fold_left]. apply IH. apply J_add; [exact Ja|].
    split; [intros ? []|exact I]. }
  apply G. exact I.
Qed.

(** ** every expression built through the public API satisfies the invariant *)
Inductive built : expr -> Prop :=
| b_val : forall c, built (e_val c)
| b_var : forall v, built (e_var v)
| b_add : forall a b, built a -> built b -> built (e_add w a b)
| b_mul : forall a b, built a -> built b -> built (e_mul w a b)
| b_neg : forall a, built a -> built (e_neg w a)
| b_half : forall a h, built a -> e_half w a = Some h -> built h
| b_norm : forall a, built a -> built (e_normalize w a)
| b_sym : forall a f r, built a -> (forall v e, f v = Some e -> built e) -> e_symb_evaluate w a f = Some r -> built r
| b_inc_of : forall a v r, built a -> e_inc_of a v = Some r -> built r
| b_prod_inc_of : forall a v r m, built a -> e_prod_inc_of a v = Some (r, m) -> built r
| b_prod_of : forall a v r, built a -> e_prod_of w a v = Some r -> built r.

Theorem built_J : forall a, built a -> J a.
Proof.
  intros a B. induction B as [c|v|a b _ Ja _ Jb|a b _ Ja _ Jb|a _ Ja|a h _ Ja H|a _ Ja|a f r _ Ja _ Jf H|a v r _ Ja H|a v r m _ Ja H|a v r _ Ja H].
  - apply J_val.
  - apply J_var.
  - apply J_add; assumption.
  - apply J_mul; assumption.
  - apply J_neg; assumption.
  - apply (J_half a h Ja H).
  - apply J_normalize; assumption.
  - apply (J_symb a f r Jf H).
  - apply (J_inc_of a v r Ja H).
  - apply (J_prod_inc_of a v r m Ja H).
  - apply (J_prod_of a v r H).
Qed.
End Ops.

(** ** the decompositions, for every expression built through the public API *)
Section Full.
Variable w : Z.
Hypothesis Hw : 0 <= w.

Theorem eval_inc_of : forall rho a v r, built w a -> e_inc_of a v = Some r ->
  eqm (2 ^ w) (eval w a rho) (rho v + eval w r rho).
Proof. intros rho a v r B H. apply (eval_inc_of_partial w Hw rho a v r (J_singles v a (built_J w a B)) H). Qed.

Theorem eval_prod_inc_of : forall rho a v r m, built w a -> e_prod_inc_of a v = Some (r, m) ->
  eqm (2 ^ w) (eval w a rho) (m * rho v + eval w r rho).
Proof. intros rho a v r m B H. apply (eval_prod_inc_of_partial w Hw rho a v r m (J_singles v a (built_J w a B)) H). Qed.

Theorem eval_constant_part : forall a, built w a -> eqm (2 ^ w) (eval w a (fun _ => 0)) (e_constant_part a).
Proof. intros a B. apply (eval_constant_part_partial w Hw a (J_const_first a (built_J w a B))). Qed.
End Full.

(** * LimitedProofs.v — budget-limited execution of the IR interpreter model ([IR.ir_exec] with
    [limited = true], src/exec/irint.rs [execute_block::<_, true>]) is a faithful finite prefix
    of the unlimited execution (property C07, IR interpreter). *)
From Coq Require Import ZArith List Bool Lia Arith.
From HPBF Require Import Cell IO Expr IR Level0Proofs.
Import ListNotations.
Open Scope Z_scope.

Local Arguments Z.mul : simpl never.
Local Arguments Z.add : simpl never.
Local Arguments Z.sub : simpl never.

(** states that agree on everything except the budget *)
Definition beq (s t : irst) : Prop :=
  ir_tape s = ir_tape t /\ ir_ptr s = ir_ptr t /\ ir_io s = ir_io t.

Definition oeq (o1 o2 : outcome irst) : Prop :=
  match o1, o2 with
  | Done a, Done b | Stopped a, Stopped b | Interrupted a, Interrupted b | OutOfFuel a, OutOfFuel b => beq a b
  | Errored p a, Errored q b => p = q /\ beq a b
  | _, _ => False
  end.

Lemma beq_refl : forall s, beq s s. Proof. intros; repeat split. Qed.
Lemma beq_sym : forall s t, beq s t -> beq t s. Proof. intros s t (A & B & C); repeat split; congruence. Qed.
Lemma beq_trans : forall s t u, beq s t -> beq t u -> beq s u.
Proof. intros s t u (A & B & C) (A' & B' & C'); repeat split; congruence. Qed.

Lemma beq_set_budget : forall s b, beq (ir_set_budget s b) s. Proof. intros; repeat split. Qed.
Lemma beq_move : forall s t d, beq s t -> beq (ir_move s d) (ir_move t d).
Proof. intros s t d (A & B & C). unfold ir_move, beq. cbn. repeat split; congruence. Qed.
Lemma beq_set_io : forall s t i, beq s t -> beq (ir_set_io s i) (ir_set_io t i).
Proof. intros s t i (A & B & C). unfold ir_set_io, beq. cbn. repeat split; congruence. Qed.
Lemma beq_write : forall s t k v, beq s t -> beq (ir_write s k v) (ir_write t k v).
Proof. intros s t k v (A & B & C). unfold ir_write, beq. cbn. repeat split; congruence. Qed.
Lemma beq_read : forall s t k, beq s t -> ir_read s k = ir_read t k.
Proof. intros s t k (A & B & C). unfold ir_read. congruence. Qed.

Lemma beq_calc : forall w calcs s t, beq s t -> beq (ir_calc w calcs s) (ir_calc w calcs t).
Proof.
  intros w calcs s t H. unfold ir_calc.
  assert (E : map (fun ce => (fst ce, eval w (snd ce) (ir_read s))) calcs =
              map (fun ce => (fst ce, eval w (snd ce) (ir_read t))) calcs).
  { apply map_ext. intros ce. f_equal. f_equal.
    destruct H as (A & B & C). unfold ir_read. rewrite A, B. reflexivity. }
  rewrite E. clear E. generalize (map (fun ce => (fst ce, eval w (snd ce) (ir_read t))) calcs) as vals.
  intros vals. revert s t H. induction vals as [|vv vals IH]; intros s t H; [exact H|].
  cbn [fold_left]. apply IH. apply beq_write. exact H.
Qed.

(** the unlimited interpreter does not look at the budget *)
Lemma unlimited_beq : forall w e g p s t, beq s t ->
  oeq (ir_exec w e false g p s) (ir_exec w e false g p t).
Proof.
  intros w e g. induction g as [|g IH]; intros p s t H; [exact H|].
  cbn [ir_exec]. destruct p as [|i rest]; [exact H|].
  destruct i as [src|dst|calcs|cond shift body once|cond shift body].
  - rewrite (beq_read s t src H). destruct H as (A & B & C). rewrite C.
    destruct (do_output e (ir_io t) _) as [u i|i]; [apply IH|]; apply beq_set_io; repeat split; assumption.
  - pose proof H as (A & B & C). rewrite C.
    destruct (do_input e (ir_io t)) as [b i|i]; [apply IH; apply beq_write|]; apply beq_set_io; exact H.
  - apply IH. apply beq_calc. exact H.
  - rewrite (beq_read s t cond H). destruct (ir_read t cond =? 0); [apply IH; exact H|].
    pose proof (IH body s t H) as B.
    destruct (ir_exec w e false g body s) as [a|a|a|q a|a]; destruct (ir_exec w e false g body t) as [b|b|b|q' b|b];
      try contradiction; try exact B; apply IH; apply beq_move; exact B.
  - rewrite (beq_read s t cond H). destruct (ir_read t cond =? 0); [apply IH; exact H|].
    pose proof (IH body s t H) as B.
    destruct (ir_exec w e false g body s) as [a|a|a|q a|a]; destruct (ir_exec w e false g body t) as [b|b|b|q' b|b];
      try contradiction; try exact B; apply IH; apply beq_move; exact B.
Qed.

(** the event trace only grows *)
Definition extends (old new : list event) : Prop := exists l, new = l ++ old.
Lemma extends_refl : forall t, extends t t. Proof. intros; exists []; reflexivity. Qed.
Lemma extends_trans : forall a b c, extends a b -> extends b c -> extends a c.
Proof. intros a b c [l1 ->] [l2 ->]. exists (l2 ++ l1). rewrite app_assoc. reflexivity. Qed.

Lemma output_extends : forall e s b, match do_output e s b with IoOk _ i | IoFail i => extends (trace s) (trace i) end.
Proof.
  intros e s b. unfold do_output. destruct (negb (out_present e)); [apply extends_refl|].
  destruct (opt_nat_eqb (out_fail_at e) (out_cnt s)); cbn [trace]; eexists [_]; reflexivity.
Qed.
Lemma input_extends : forall e s, match do_input e s with IoOk _ i | IoFail i => extends (trace s) (trace i) end.
Proof.
  intros e s. unfold do_input. destruct (in_absent e); [apply extends_refl|].
  destruct (opt_nat_eqb (in_fail_at e) (in_pos s)); [eexists [_]; reflexivity|].
  destruct (nth_error (input e) (in_pos s)); cbn [trace]; eexists [_]; reflexivity.
Qed.

Lemma calc_io : forall w calcs s, ir_io (ir_calc w calcs s) = ir_io s.
Proof.
  intros w calcs s. unfold ir_calc. generalize (map (fun ce => (fst ce, eval w (snd ce) (ir_read s))) calcs) as vals.
  intros vals. revert s. induction vals as [|vv vals IH]; intros s; [reflexivity|]. cbn [fold_left]. rewrite IH. reflexivity.
Qed.
Lemma calc_budget : forall w calcs s, ir_budget (ir_calc w calcs s) = ir_budget s.
Proof.
  intros w calcs s. unfold ir_calc. generalize (map (fun ce => (fst ce, eval w (snd ce) (ir_read s))) calcs) as vals.
  intros vals. revert s. induction vals as [|vv vals IH]; intros s; [reflexivity|]. cbn [fold_left]. rewrite IH. reflexivity.
Qed.

Lemma exec_extends : forall w e lim g p s,
  extends (trace (ir_io s)) (trace (ir_io (outcome_state (ir_exec w e lim g p s)))).
Proof.
  intros w e lim g. induction g as [|g IH]; intros p s; [apply extends_refl|].
  cbn [ir_exec]. destruct p as [|i rest]; [apply extends_refl|].
  destruct i as [src|dst|calcs|cond shift body once|cond shift body].
  - pose proof (output_extends e (ir_io s) (into_u8 w (ir_read s src))) as O.
    destruct (do_output e (ir_io s) _) as [u i|i]; [|exact O].
    eapply extends_trans; [exact O|]. apply (IH rest (ir_set_io s i)).
  - pose proof (input_extends e (ir_io s)) as O.
    destruct (do_input e (ir_io s)) as [b i|i]; [|exact O].
    eapply extends_trans; [exact O|]. apply (IH rest (ir_write (ir_set_io s i) dst (from_u8 w b))).
  - pose proof (IH rest (ir_calc w calcs s)) as O. rewrite calc_io in O. exact O.
  - destruct (ir_read s cond =? 0); [apply IH|].
    pose proof (IH body s) as B.
    destruct (ir_exec w e lim g body s) as [a|a|a|q a|a]; cbn [outcome_state] in *; try exact B.
    + destruct lim.
      * destruct (ir_budget (ir_move a shift) =? 0); [exact B|]. eapply extends_trans; [exact B|]; match goal with |- extends _ (trace (ir_io (outcome_state (ir_exec _ _ _ _ ?p ?s)))) => exact (IH p s) end.
      * eapply extends_trans; [exact B|]; match goal with |- extends _ (trace (ir_io (outcome_state (ir_exec _ _ _ _ ?p ?s)))) => exact (IH p s) end.
    + destruct lim.
      * destruct (ir_budget (ir_move a shift) =? 0); [exact B|]. eapply extends_trans; [exact B|]; match goal with |- extends _ (trace (ir_io (outcome_state (ir_exec _ _ _ _ ?p ?s)))) => exact (IH p s) end.
      * eapply extends_trans; [exact B|]; match goal with |- extends _ (trace (ir_io (outcome_state (ir_exec _ _ _ _ ?p ?s)))) => exact (IH p s) end.
  - destruct (ir_read s cond =? 0); [apply IH|].
    pose proof (IH body s) as B.
    destruct (ir_exec w e lim g body s) as [a|a|a|q a|a]; cbn [outcome_state] in *; try exact B.
    + destruct lim.
      * destruct (ir_budget (ir_move a shift) =? 0); [exact B|]. eapply extends_trans; [exact B|]; match goal with |- extends _ (trace (ir_io (outcome_state (ir_exec _ _ _ _ ?p ?s)))) => exact (IH p s) end.
      * eapply extends_trans; [exact B|]; match goal with |- extends _ (trace (ir_io (outcome_state (ir_exec _ _ _ _ ?p ?s)))) => exact (IH p s) end.
    + destruct lim.
      * destruct (ir_budget (ir_move a shift) =? 0); [exact B|]. eapply extends_trans; [exact B|]; match goal with |- extends _ (trace (ir_io (outcome_state (ir_exec _ _ _ _ ?p ?s)))) => exact (IH p s) end.
      * eapply extends_trans; [exact B|]; match goal with |- extends _ (trace (ir_io (outcome_state (ir_exec _ _ _ _ ?p ?s)))) => exact (IH p s) end.
Qed.

Lemma oeq_sym : forall a b, oeq a b -> oeq b a.
Proof.
  intros [a|a|a|p a|a] [b|b|b|q b|b] H; try contradiction; cbn in *; try (apply beq_sym; exact H).
  destruct H as [-> H]. split; [reflexivity|apply beq_sym; exact H].
Qed.
Lemma oeq_trans : forall a b c, oeq a b -> oeq b c -> oeq a c.
Proof.
  intros [a|a|a|p a|a] [b|b|b|q b|b] [c|c|c|r c|c] H1 H2; try contradiction; cbn in *; try (eapply beq_trans; eassumption).
  destruct H1 as [-> H1]. destruct H2 as [-> H2]. split; [reflexivity|eapply beq_trans; eassumption].
Qed.
Lemma oeq_io : forall a b, oeq a b -> ir_io (outcome_state a) = ir_io (outcome_state b).
Proof.
  intros [a|a|a|p a|a] [b|b|b|q b|b] H; try contradiction; cbn in *; try (destruct H as (_ & _ & C); exact C).
  destruct H as [_ (_ & _ & C)]. exact C.
Qed.

(** what a limited outcome [o] says about the unlimited outcome [U] of the same run *)
Definition LP (o U : outcome irst) : Prop :=
  match o with
  | Done s' => oeq U (Done s')
  | Stopped s' => oeq U (Stopped s')
  | Interrupted s' => ir_budget s' = 0 /\ extends (trace (ir_io s')) (trace (ir_io (outcome_state U)))
  | Errored _ _ => False
  | OutOfFuel _ => True
  end.

Lemma LP_oeq : forall o U1 U2, LP o U1 -> oeq U2 U1 -> LP o U2.
Proof.
  intros [s|s|s|p s|s] U1 U2 H E; cbn in *; try exact H; try (eapply oeq_trans; eassumption).
  destruct H as [B X]. split; [exact B|]. rewrite (oeq_io _ _ E). exact X.
Qed.

Lemma limited_prefix : forall w e f p s g, (f <= g)%nat ->
  LP (ir_exec w e true f p s) (ir_exec w e false g p s).
Proof.
  intros w e f. induction f as [|f IH]; intros p s g L; [exact I|].
  destruct g as [|g]; [lia|]. assert (L' : (f <= g)%nat) by lia.
  cbn [ir_exec]. destruct p as [|i rest]; [apply beq_refl|].
  assert (LOOP : forall shift body (cont : list instr),
    (forall t, LP (ir_exec w e true f cont t) (ir_exec w e false g cont t)) ->
    LP (match ir_exec w e true f body s with
        | Done s' | Interrupted s' =>
            if ir_budget (ir_move s' shift) =? 0 then Interrupted (ir_move s' shift)
            else ir_exec w e true f cont (ir_set_budget (ir_move s' shift) (ir_budget (ir_move s' shift) - 1))
        | Stopped s' => Stopped s'
        | Errored p0 s' => Errored p0 s'
        | OutOfFuel s' => OutOfFuel s'
        end)
       (match ir_exec w e false g body s with
        | Done s' | Interrupted s' => ir_exec w e false g cont (ir_move s' shift)
        | Stopped s' => Stopped s'
        | Errored p0 s' => Errored p0 s'
        | OutOfFuel s' => OutOfFuel s'
        end)).
  { intros shift body cont HC. pose proof (IH body s g L') as B.
    destruct (ir_exec w e true f body s) as [a|a|a|q a|a]; cbn [LP] in B.
    - (* body done *)
      destruct (ir_exec w e false g body s) as [a'|a'|a'|q' a'|a'] eqn:UB; try contradiction. cbn [oeq] in B.
      destruct (ir_budget (ir_move a shift) =? 0) eqn:BZ.
      + cbn [LP]. split; [apply Z.eqb_eq; exact BZ|].
        pose proof (exec_extends w e false g cont (ir_move a' shift)) as X.
        destruct B as (_ & _ & C). cbn [ir_move ir_io] in *. rewrite <- C. exact X.
      + eapply LP_oeq; [apply HC|]. apply unlimited_beq.
        eapply beq_trans; [apply beq_move; exact B|]. apply beq_sym, beq_set_budget.
    - (* body stopped *)
      destruct (ir_exec w e false g body s) as [a'|a'|a'|q' a'|a'] eqn:UB; try contradiction. exact B.
    - (* body interrupted *)
      destruct B as [B0 BX]. cbn [ir_move ir_budget]. rewrite B0. change (0 =? 0) with true. cbv iota. split; [exact B0|]. cbn [ir_move ir_io].
      destruct (ir_exec w e false g body s) as [a'|a'|a'|q' a'|a'] eqn:UB; cbn [outcome_state] in *; try exact BX.
      + eapply extends_trans; [exact BX|]. apply (exec_extends w e false g cont (ir_move a' shift)).
      + eapply extends_trans; [exact BX|]. apply (exec_extends w e false g cont (ir_move a' shift)).
    - contradiction.
    - exact I. }
  destruct i as [src|dst|calcs|cond shift body once|cond shift body].
  - destruct (do_output e (ir_io s) _) as [u i|i]; [apply IH; exact L'|apply beq_refl].
  - destruct (do_input e (ir_io s)) as [b i|i]; [apply IH; exact L'|apply beq_refl].
  - apply IH; exact L'.
  - destruct (ir_read s cond =? 0); [apply IH; exact L'|].
    apply (LOOP shift body (ILoop cond shift body once :: rest)). intros t. apply IH. exact L'.
  - destruct (ir_read s cond =? 0); [apply IH; exact L'|].
    apply (LOOP shift body rest). intros t. apply IH. exact L'.
Qed.

(** ** the budget only decreases, never below zero, and no run returns [Errored] *)
Lemma exec_budget : forall w e lim f p s, 0 <= ir_budget s ->
  0 <= ir_budget (outcome_state (ir_exec w e lim f p s)) <= ir_budget s /\
  match ir_exec w e lim f p s with Errored _ _ => False | _ => True end.
Proof.
  intros w e lim f. induction f as [|f IH]; intros p s B; [cbn; split; [lia|exact I]|].
  cbn [ir_exec]. destruct p as [|i rest]; [cbn; split; [lia|exact I]|].
  assert (LOOP : forall shift body (cont : list instr),
    let o := match ir_exec w e lim f body s with
        | Done s' | Interrupted s' =>
            if lim then
              if ir_budget (ir_move s' shift) =? 0 then Interrupted (ir_move s' shift)
              else ir_exec w e lim f cont (ir_set_budget (ir_move s' shift) (ir_budget (ir_move s' shift) - 1))
            else ir_exec w e lim f cont (ir_move s' shift)
        | Stopped s' => Stopped s'
        | Errored p0 s' => Errored p0 s'
        | OutOfFuel s' => OutOfFuel s'
        end in
    0 <= ir_budget (outcome_state o) <= ir_budget s /\ match o with Errored _ _ => False | _ => True end).
  { intros shift body cont. destruct (IH body s B) as [B1 N1].
    destruct (ir_exec w e lim f body s) as [a|a|a|q a|a]; cbn [outcome_state] in *; try contradiction;
      try (split; [exact B1|exact I]).
    - destruct lim.
      + cbn [ir_move ir_budget]. destruct (ir_budget a =? 0) eqn:Z0; [cbn; split; [exact B1|exact I]|].
        apply Z.eqb_neq in Z0.
        destruct (IH cont (ir_set_budget (ir_move a shift) (ir_budget a - 1))) as [B2 N2]; [cbn; lia|].
        cbn [ir_set_budget ir_budget] in B2. split; [lia|exact N2].
      + destruct (IH cont (ir_move a shift)) as [B2 N2]; [cbn; lia|]. cbn [ir_move ir_budget] in B2. split; [lia|exact N2].
    - destruct lim.
      + cbn [ir_move ir_budget]. destruct (ir_budget a =? 0) eqn:Z0; [cbn; split; [exact B1|exact I]|].
        apply Z.eqb_neq in Z0.
        destruct (IH cont (ir_set_budget (ir_move a shift) (ir_budget a - 1))) as [B2 N2]; [cbn; lia|].
        cbn [ir_set_budget ir_budget] in B2. split; [lia|exact N2].
      + destruct (IH cont (ir_move a shift)) as [B2 N2]; [cbn; lia|]. cbn [ir_move ir_budget] in B2. split; [lia|exact N2]. }
  destruct i as [src|dst|calcs|cond shift body once|cond shift body].
  - destruct (do_output e (ir_io s) _) as [u i|i]; [apply (IH rest (ir_set_io s i)); exact B|cbn; split; [lia|exact I]].
  - destruct (do_input e (ir_io s)) as [b i|i]; [apply (IH rest (ir_write (ir_set_io s i) dst (from_u8 w b))); exact B|cbn; split; [lia|exact I]].
  - destruct (IH rest (ir_calc w calcs s)) as [B1 N1]; [rewrite calc_budget; exact B|]. rewrite calc_budget in B1. split; assumption.
  - destruct (ir_read s cond =? 0); [apply IH; exact B|]. apply LOOP.
  - destruct (ir_read s cond =? 0); [apply IH; exact B|]. apply LOOP.
Qed.

(** ** limited execution returns: recursion depth bounded by program size + budget *)
Fixpoint isize (i : instr) : nat :=
  match i with
  | ILoop _ _ body _ => S (list_sum (map isize body))
  | IIf _ _ body => S (list_sum (map isize body))
  | _ => 1
  end.
Definition bsize (p : list instr) : nat := list_sum (map isize p).

Lemma bsize_cons : forall i rest, bsize (i :: rest) = (isize i + bsize rest)%nat.
Proof. reflexivity. Qed.

Lemma limited_total : forall w e f p s, 0 <= ir_budget s ->
  (bsize p + Z.to_nat (ir_budget s) + 1 <= f)%nat ->
  match ir_exec w e true f p s with OutOfFuel _ => False | _ => True end.
Proof.
  intros w e f. induction f as [|f IH]; intros p s B L; [lia|].
  cbn [ir_exec]. destruct p as [|i rest]; [exact I|].
  rewrite bsize_cons in L.
  assert (LOOP : forall shift body (cont : list instr),
    (bsize body + Z.to_nat (ir_budget s) + 1 <= f)%nat ->
    (bsize cont + Z.to_nat (ir_budget s) <= f)%nat ->
    match (match ir_exec w e true f body s with
        | Done s' | Interrupted s' =>
            if ir_budget (ir_move s' shift) =? 0 then Interrupted (ir_move s' shift)
            else ir_exec w e true f cont (ir_set_budget (ir_move s' shift) (ir_budget (ir_move s' shift) - 1))
        | Stopped s' => Stopped s'
        | Errored p0 s' => Errored p0 s'
        | OutOfFuel s' => OutOfFuel s'
        end) with OutOfFuel _ => False | _ => True end).
  { intros shift body cont LB LC. pose proof (IH body s B LB) as NB.
    destruct (exec_budget w e true f body s B) as [B1 _].
    destruct (ir_exec w e true f body s) as [a|a|a|q a|a]; cbn [outcome_state] in *; try exact I; try contradiction.
    - cbn [ir_move ir_budget]. destruct (ir_budget a =? 0) eqn:Z0; [exact I|]. apply Z.eqb_neq in Z0.
      apply IH; cbn [ir_set_budget ir_budget]; [lia|]. rewrite Z2Nat.inj_sub by lia. change (Z.to_nat 1) with 1%nat.
      assert (Z.to_nat (ir_budget a) <= Z.to_nat (ir_budget s))%nat by (apply Z2Nat.inj_le; lia).
      assert (1 <= Z.to_nat (ir_budget a))%nat by (change 1%nat with (Z.to_nat 1); apply Z2Nat.inj_le; lia). lia.
    - cbn [ir_move ir_budget]. destruct (ir_budget a =? 0) eqn:Z0; [exact I|]. apply Z.eqb_neq in Z0.
      apply IH; cbn [ir_set_budget ir_budget]; [lia|]. rewrite Z2Nat.inj_sub by lia. change (Z.to_nat 1) with 1%nat.
      assert (Z.to_nat (ir_budget a) <= Z.to_nat (ir_budget s))%nat by (apply Z2Nat.inj_le; lia).
      assert (1 <= Z.to_nat (ir_budget a))%nat by (change 1%nat with (Z.to_nat 1); apply Z2Nat.inj_le; lia). lia. }
  destruct i as [src|dst|calcs|cond shift body once|cond shift body]; cbn [isize] in L.
  - destruct (do_output e (ir_io s) _) as [u i|i]; [apply IH; cbn [ir_set_io ir_budget]; [exact B|lia]|exact I].
  - destruct (do_input e (ir_io s)) as [b i|i]; [apply IH; cbn [ir_write ir_set_io ir_budget]; [exact B|lia]|exact I].
  - apply IH; rewrite calc_budget; [exact B|lia].
  - fold (bsize body) in L. destruct (ir_read s cond =? 0); [apply IH; [exact B|lia]|].
    apply LOOP; [lia|]. rewrite bsize_cons. cbn [isize]. fold (bsize body). lia.
  - fold (bsize body) in L. destruct (ir_read s cond =? 0); [apply IH; [exact B|lia]|].
    apply LOOP; lia.
Qed.

(** ** with a large enough budget the limited run is the unlimited run *)
Lemma calc_set_budget : forall w calcs s b, ir_calc w calcs (ir_set_budget s b) = ir_set_budget (ir_calc w calcs s) b.
Proof.
  intros w calcs s b. unfold ir_calc.
  change (ir_read (ir_set_budget s b)) with (ir_read s).
  generalize (map (fun ce => (fst ce, eval w (snd ce) (ir_read s))) calcs) as vals.
  intros vals. revert s. induction vals as [|vv vals IH]; intros s; [reflexivity|]. cbn [fold_left].
  change (ir_write (ir_set_budget s b) (fst vv) (snd vv)) with (ir_set_budget (ir_write s (fst vv) (snd vv)) b). apply IH.
Qed.

Definition with_budget (o : outcome irst) (b : Z) : outcome irst :=
  match o with
  | Done s => Done (ir_set_budget s b) | Stopped s => Stopped (ir_set_budget s b)
  | Interrupted s => Interrupted (ir_set_budget s b) | Errored p s => Errored p (ir_set_budget s b)
  | OutOfFuel s => OutOfFuel (ir_set_budget s b)
  end.

Lemma big_budget : forall w e f p s o, ir_exec w e false f p s = o -> iterminal o ->
  exists n, 0 <= n /\ forall b, n <= b -> ir_exec w e true f p (ir_set_budget s b) = with_budget o (b - n).
Proof.
  intros w e f. induction f as [|f IH]; intros p s o H T; [cbn in H; subst o; contradiction|].
  cbn [ir_exec] in H |- *. destruct p as [|i rest].
  - subst o. exists 0. split; [lia|]. intros b _. cbn. rewrite Z.sub_0_r. reflexivity.
  - destruct i as [src|dst|calcs|cond shift body once|cond shift body].
    + change (ir_io (ir_set_budget s ?b)) with (ir_io s). change (ir_read (ir_set_budget s ?b) src) with (ir_read s src).
      destruct (do_output e (ir_io s) _) as [u i|i].
      * destruct (IH _ _ _ H T) as (n & N0 & HN). exists n. split; [exact N0|]. intros b Lb. apply (HN b Lb).
      * subst o. exists 0. split; [lia|]. intros b _. cbn. rewrite Z.sub_0_r. reflexivity.
    + change (ir_io (ir_set_budget s ?b)) with (ir_io s).
      destruct (do_input e (ir_io s)) as [v i|i].
      * destruct (IH _ _ _ H T) as (n & N0 & HN). exists n. split; [exact N0|]. intros b Lb. apply (HN b Lb).
      * subst o. exists 0. split; [lia|]. intros b _. cbn. rewrite Z.sub_0_r. reflexivity.
    + destruct (IH _ _ _ H T) as (n & N0 & HN). exists n. split; [exact N0|]. intros b Lb.
      rewrite calc_set_budget. apply (HN b Lb).
    + change (ir_read (ir_set_budget s ?b) cond) with (ir_read s cond).
      destruct (ir_read s cond =? 0).
      * destruct (IH _ _ _ H T) as (n & N0 & HN). exists n. split; [exact N0|]. intros b Lb. apply (HN b Lb).
      * pose proof (ir_unlimited_outcomes w e f body s) as NB.
        destruct (ir_exec w e false f body s) as [a|a|a|q a|a] eqn:UB; try contradiction.
        -- destruct (IH _ _ _ UB I) as (n1 & N1 & H1). destruct (IH _ _ _ H T) as (n2 & N2 & H2).
           exists (n1 + 1 + n2). split; [lia|]. intros b Lb. rewrite (H1 b) by lia. cbn [with_budget].
           cbn [ir_move ir_set_budget ir_budget]. destruct (b - n1 =? 0) eqn:Z0; [apply Z.eqb_eq in Z0; lia|].
           change (ir_set_budget (ir_move (ir_set_budget a (b - n1)) shift) (b - n1 - 1))
             with (ir_set_budget (ir_move a shift) (b - n1 - 1)).
           rewrite (H2 (b - n1 - 1)) by lia. f_equal. lia.
        -- subst o. destruct (IH _ _ _ UB I) as (n1 & N1 & H1). exists n1. split; [exact N1|]. intros b Lb.
           rewrite (H1 b Lb). reflexivity.
        -- subst o. contradiction.
    + change (ir_read (ir_set_budget s ?b) cond) with (ir_read s cond).
      destruct (ir_read s cond =? 0).
      * destruct (IH _ _ _ H T) as (n & N0 & HN). exists n. split; [exact N0|]. intros b Lb. apply (HN b Lb).
      * pose proof (ir_unlimited_outcomes w e f body s) as NB.
        destruct (ir_exec w e false f body s) as [a|a|a|q a|a] eqn:UB; try contradiction.
        -- destruct (IH _ _ _ UB I) as (n1 & N1 & H1). destruct (IH _ _ _ H T) as (n2 & N2 & H2).
           exists (n1 + 1 + n2). split; [lia|]. intros b Lb. rewrite (H1 b) by lia. cbn [with_budget].
           cbn [ir_move ir_set_budget ir_budget]. destruct (b - n1 =? 0) eqn:Z0; [apply Z.eqb_eq in Z0; lia|].
           change (ir_set_budget (ir_move (ir_set_budget a (b - n1)) shift) (b - n1 - 1))
             with (ir_set_budget (ir_move a shift) (b - n1 - 1)).
           rewrite (H2 (b - n1 - 1)) by lia. f_equal. lia.
        -- subst o. destruct (IH _ _ _ UB I) as (n1 & N1 & H1). exists n1. split; [exact N1|]. intros b Lb.
           rewrite (H1 b Lb). reflexivity.
        -- subst o. contradiction.
Qed.

(** * Forms.v — model of [bc::CodeGen::parameter_reordering] (src/bc.rs:640-682) and of the
    operand shapes the two instruction selectors accept (the arms of the [match] in
    src/exec/basejit/codegen.rs:302-955 and of [emit] in src/exec/bcint/ops.rs:788-866);
    property C13 (no [unimplemented!] is reachable). *)

From Coq Require Import ZArith List Bool.
From HPBF Require Import Cell IO BC.
Import ListNotations.
Open Scope Z_scope.

Definition is_imm (l : loc) : bool := match l with Imm _ => true | _ => false end.
Definition is_tmp (l : loc) : bool := match l with Tmp _ => true | _ => false end.
Definition is_mem (l : loc) : bool := match l with Mem _ => true | _ => false end.

Definition loc_eq (a b : loc) : bool :=
  match a, b with
  | Mem x, Mem y | MemZero x, MemZero y | Tmp x, Tmp y | Imm x, Imm y => x =? y
  | _, _ => false
  end.

(** the commutative normal form of lines 661-678 *)
Definition commute (d a b : loc) : loc * loc :=
  let '(a1, b1) :=
    match a with
    | Tmp t0 => match b with
                | Tmp t1 => if t1 <? t0 then (b, a) else (a, b)
                | _ => (b, a)
                end
    | _ => (a, b)
    end in
  let '(a2, b2) := if is_imm a1 then (b1, a1) else (a1, b1) in
  if loc_eq d b2 then (b2, a2) else (a2, b2).

Definition reorder (w : Z) (i : binstr) : binstr :=
  let i1 :=
    match i with
    | Add d (Imm x) (Imm y) => Copy d (Imm (wadd w x y))
    | Sub d (Imm x) (Imm y) => Copy d (Imm (wadd w x (wneg w y)))
    | Mul d (Imm x) (Imm y) => Copy d (Imm (wmul w x y))
    | _ => i
    end in
  let i2 := match i1 with Sub d a (Imm y) => Add d a (Imm (wneg w y)) | _ => i1 end in
  match i2 with
  | Add d a b => let '(a', b') := commute d a b in Add d a' b'
  | Mul d a b => let '(a', b') := commute d a b in Mul d a' b'
  | _ => i2
  end.

(** shapes accepted by the baseline JIT's selector *)
Definition jit_covers (i : binstr) : bool :=
  match i with
  | Noop | MovP _ | Inp _ | Outp _ | BrZ _ _ | BrNZ _ _ => true
  | Scan _ _ => false
  | Copy (Mem _) (Imm _) | Copy (Mem _) (Mem _) | Copy (Mem _) (Tmp _)
  | Copy (Tmp _) (Imm _) | Copy (Tmp _) (Mem _) | Copy (Tmp _) (Tmp _) => true
  | Add (Mem _) (Mem _) (Imm _) | Add (Mem _) (Mem _) (Tmp _) | Add (Mem _) (Mem _) (Mem _)
  | Add (Mem _) (Tmp _) (Imm _) | Add (Mem _) (Tmp _) (Tmp _)
  | Add (Tmp _) (Mem _) (Imm _) | Add (Tmp _) (Mem _) (Tmp _) | Add (Tmp _) (Mem _) (Mem _)
  | Add (Tmp _) (Tmp _) (Imm _) | Add (Tmp _) (Tmp _) (Tmp _) => true
  | Add (Tmp t0) (Tmp t1) (Mem _) => t0 =? t1
  | Sub (Mem _) (Mem _) (Tmp _) | Sub (Mem _) (Mem _) (Mem _) | Sub (Mem _) (Tmp _) (Tmp _) | Sub (Mem _) (Tmp _) (Mem _)
  | Sub (Tmp _) (Mem _) (Tmp _) | Sub (Tmp _) (Mem _) (Mem _) | Sub (Tmp _) (Tmp _) (Tmp _) | Sub (Tmp _) (Tmp _) (Mem _)
  | Sub (Mem _) (Imm _) (Tmp _) | Sub (Mem _) (Imm _) (Mem _) | Sub (Tmp _) (Imm _) (Tmp _) | Sub (Tmp _) (Imm _) (Mem _) => true
  | Mul (Mem _) (Mem _) (Imm _) | Mul (Mem _) (Mem _) (Tmp _) | Mul (Mem _) (Mem _) (Mem _)
  | Mul (Mem _) (Tmp _) (Imm _) | Mul (Mem _) (Tmp _) (Tmp _)
  | Mul (Tmp _) (Mem _) (Imm _) | Mul (Tmp _) (Mem _) (Tmp _) | Mul (Tmp _) (Mem _) (Mem _)
  | Mul (Tmp _) (Tmp _) (Imm _) | Mul (Tmp _) (Tmp _) (Tmp _) => true
  | Mul (Tmp t0) (Tmp t1) (Mem _) => t0 =? t1
  | _ => false
  end.

(** shapes accepted by the threaded-code emitter: any Mem/Tmp destination, any source *)
Definition dst_writable (d : loc) : bool := match d with Mem _ | Tmp _ => true | _ => false end.
Definition int_covers (i : binstr) : bool :=
  match i with
  | Noop | Scan _ _ | MovP _ | Inp _ | Outp _ | BrZ _ _ | BrNZ _ _ => true
  | Copy d _ => dst_writable d
  | Add d _ _ | Sub d _ _ | Mul d _ _ => dst_writable d
  end.

(** what [allocate_temps] can leave before reordering: Mem/Tmp destinations, Mem/Tmp/Imm sources *)
Definition src_plain (l : loc) : bool := match l with Mem _ | Tmp _ | Imm _ => true | MemZero _ => false end.
Definition pre_shape (i : binstr) : bool :=
  match i with
  | Add d a b | Sub d a b | Mul d a b => dst_writable d && src_plain a && src_plain b
  | Copy d a => dst_writable d && src_plain a
  | Scan _ _ => false
  | _ => true
  end.

(** zeroing-move detection (after reordering) only turns [Mem k] sources into [MemZero k] *)
Definition unzero (l : loc) : loc := match l with MemZero k => Mem k | _ => l end.
Definition unzero_instr (i : binstr) : binstr :=
  match i with
  | Add d a b => Add d (unzero a) (unzero b)
  | Sub d a b => Sub d (unzero a) (unzero b)
  | Mul d a b => Mul d (unzero a) (unzero b)
  | Copy d a => Copy d (unzero a)
  | _ => i
  end.

(** * Parse.v — exact model of [ir::Program::parse] (src/ir.rs:798-916).

    The frame stack holds [(shift, moved, insts, buff)]; [insts] is kept reversed; [buff]
    (a [HashMap<isize, C>]) is an association list kept sorted by key, which is exactly the
    order in which the code iterates it (it sorts before every flush). *)

From Coq Require Import ZArith List Bool.
From HPBF Require Import Cell IO BF Expr IR.
Import ListNotations.
Open Scope Z_scope.

Definition buff := list (Z * Z).

Fixpoint buff_get (b : buff) (k : Z) : option Z :=
  match b with [] => None | (k', v) :: b' => if k' =? k then Some v else buff_get b' k end.

(** insert or overwrite, keeping keys sorted *)
Fixpoint buff_set (b : buff) (k v : Z) : buff :=
  match b with
  | [] => [(k, v)]
  | (k', v') :: b' =>
      if k =? k' then (k, v) :: b'
      else if k <? k' then (k, v) :: b
      else (k', v') :: buff_set b' k v
  end.

Definition buff_val (b : buff) (k : Z) : Z := match buff_get b k with Some v => v | None => 0 end.

(** [Instr::add(var, val)] and [Instr::load(var, val)] *)
Definition i_add (var val : Z) : instr := ICalc [(var, [(val, []); (1, [var])])].
Definition i_load (var val : Z) : instr := ICalc [(var, e_val val)].

Record frame := { f_shift : Z; f_moved : bool; f_insts : list instr (* reversed *); f_buff : buff }.

Inductive perr := LoopNotClosed | LoopNotOpened.
Inductive parse_res := POk (b : block) | PErr (k : perr) (pos : Z).

(** push [add(k, v)] for every non-zero entry (in key order) *)
Definition flush_nonzero (b : buff) (insts : list instr) : list instr :=
  fold_left (fun acc kv => if snd kv =? 0 then acc else i_add (fst kv) (snd kv) :: acc) b insts.

(** [entry(k).or_insert(0)]; if non-zero push the add and reset to 0 *)
Definition flush_key (k : Z) (st : list instr * buff) : list instr * buff :=
  let '(insts, b) := st in
  let v := buff_val b k in
  if v =? 0 then (insts, buff_set b k 0) else (i_add k v :: insts, buff_set b k 0).

Definition zero_all (b : buff) : buff := map (fun kv => (fst kv, 0)) b.

(** the [[-]]-like pattern test of lines 853-859 *)
Definition is_clear_loop (w : Z) (sub : frame) (sub_insts : list instr) (shift : Z) : bool :=
  negb (f_moved sub) && (f_shift sub =? shift) &&
  match sub_insts with
  | [ICalc [(var, ex)]] =>
      (var =? shift) && match e_const_inc_of ex shift with Some inc => is_odd inc | None => false end
  | _ => false
  end.

Definition close_loop (w : Z) (sub parent : frame) : frame :=
  let sub_insts := rev (flush_nonzero (f_buff sub) (f_insts sub)) in
  let shift := f_shift parent in
  if is_clear_loop w sub sub_insts shift then
    {| f_shift := shift; f_moved := f_moved parent;
       f_insts := i_load shift 0 :: f_insts parent; f_buff := buff_set (f_buff parent) shift 0 |}
  else
    let '(insts1, b1) := fold_left (fun st kv => flush_key (fst kv) st) (f_buff sub) (f_insts parent, f_buff parent) in
    let moves := f_moved sub || negb (f_shift sub =? shift) in
    let '(insts2, b2) := if moves then (flush_nonzero b1 insts1, zero_all b1) else (insts1, b1) in
    let '(insts3, b3) := flush_key shift (insts2, b2) in
    {| f_shift := shift; f_moved := f_moved parent || moves;
       f_insts := ILoop shift (f_shift sub - shift) sub_insts false :: insts3; f_buff := b3 |}.

Definition frame0 (shift : Z) : frame := {| f_shift := shift; f_moved := false; f_insts := []; f_buff := [] |}.

Definition with_shift (f : frame) (s : Z) : frame :=
  {| f_shift := s; f_moved := f_moved f; f_insts := f_insts f; f_buff := f_buff f |}.
Definition with_insts_buff (f : frame) (i : list instr) (b : buff) : frame :=
  {| f_shift := f_shift f; f_moved := f_moved f; f_insts := i; f_buff := b |}.

(** [i] is the index of the current character, [positions] the stack of '[' indices *)
Fixpoint parse_go (w : Z) (cs : list Z) (i : Z) (top : frame) (stack : list frame) (positions : list Z) : parse_res :=
  match cs with
  | [] =>
      match stack, positions with
      | [], _ => POk (f_shift top, rev (flush_nonzero (f_buff top) (f_insts top)))
      | _ :: _, p :: _ => PErr LoopNotClosed p
      | _ :: _, [] => PErr LoopNotClosed 0
      end
  | c :: cs' =>
      if c =? ch_gt then parse_go w cs' (i + 1) (with_shift top (f_shift top + 1)) stack positions
      else if c =? ch_lt then parse_go w cs' (i + 1) (with_shift top (f_shift top - 1)) stack positions
      else if c =? ch_plus then
        parse_go w cs' (i + 1)
          (with_insts_buff top (f_insts top) (buff_set (f_buff top) (f_shift top) (wadd w (buff_val (f_buff top) (f_shift top)) 1)))
          stack positions
      else if c =? ch_minus then
        parse_go w cs' (i + 1)
          (with_insts_buff top (f_insts top) (buff_set (f_buff top) (f_shift top) (wadd w (buff_val (f_buff top) (f_shift top)) (neg_one w))))
          stack positions
      else if c =? ch_dot then
        let '(insts, b) := flush_key (f_shift top) (f_insts top, f_buff top) in
        parse_go w cs' (i + 1) (with_insts_buff top (IOut (f_shift top) :: insts) b) stack positions
      else if c =? ch_comma then
        parse_go w cs' (i + 1)
          (with_insts_buff top (IIn (f_shift top) :: f_insts top) (buff_set (f_buff top) (f_shift top) 0)) stack positions
      else if c =? ch_open then
        parse_go w cs' (i + 1) (frame0 (f_shift top)) (top :: stack) (i :: positions)
      else if c =? ch_close then
        match positions, stack with
        | [], _ => PErr LoopNotOpened i
        | _ :: positions', parent :: stack' => parse_go w cs' (i + 1) (close_loop w top parent) stack' positions'
        | _ :: _, [] => PErr LoopNotOpened i
        end
      else parse_go w cs' (i + 1) top stack positions
  end.

Definition parse (w : Z) (cs : list Z) : parse_res := parse_go w cs 0 (frame0 0) [] [].

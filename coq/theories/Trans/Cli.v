(** * Cli.v — model of the argument loop of src/bin/hpbf.rs (property C16).

    The flag table, the defaults, the width dispatch and the executor selection are
    *regenerated* from the source on every run ([Cli_gen.v], written by tools/cli_translate.py)
    and proved equal to [spec_table] etc. below; the semantics of the argument loop is the
    fold [cli_run] over an arbitrary table. *)

From Coq Require Import ZArith List Bool String Ascii.
Import ListNotations.
Open Scope string_scope.
Open Scope Z_scope.

Inductive kind := KPrintIr | KPrintBc | KPrintBc2 | KInplace | KIrInt | KBcInt | KPrintMc | KBaseJit.

Inductive action :=
| ASetKind (k : kind) | ASetOpt (n : Z) | ASetBits (n : Z)
| AHelp | ANextFile | ANextLimit | AStatic | ATime.

Definition table := list (string * action).

(** the table the property/help text describes *)
Definition spec_table : table := [
  ("--print-ir", ASetKind KPrintIr); ("--print-bc", ASetKind KPrintBc); ("--print-jit-bc", ASetKind KPrintBc2);
  ("--inplace", ASetKind KInplace); ("--ir-int", ASetKind KIrInt); ("--bc-int", ASetKind KBcInt);
  ("--print-jit-mc", ASetKind KPrintMc); ("--base-jit", ASetKind KBaseJit);
  ("-O0", ASetOpt 0); ("-O1", ASetOpt 1); ("-O2", ASetOpt 2); ("-O3", ASetOpt 3); ("-O4", ASetOpt 4); ("-O5", ASetOpt 5);
  ("-i8", ASetBits 8); ("-i16", ASetBits 16); ("-i32", ASetBits 32); ("-i64", ASetBits 64);
  ("-h", AHelp); ("-help", AHelp); ("--help", AHelp);
  ("-f", ANextFile); ("-file", ANextFile); ("--file", ANextFile);
  ("--limit", ANextLimit); ("--static", AStatic); ("--time", ATime)
].

Record defaults := { d_bits : Z; d_opt : Z; d_kind : kind }.
Definition spec_defaults : defaults := {| d_bits := 8; d_opt := 2; d_kind := KBaseJit |}.

(** width dispatch: value of [bits] -> cell type width *)
Definition spec_widths : list (Z * Z) := [(8, 8); (16, 16); (32, 32); (64, 64)].

(** which executor type each executing kind creates *)
Definition spec_executors : list (kind * string) :=
  [(KInplace, "InplaceInterpreter"); (KIrInt, "IrInterpreter"); (KBcInt, "BcInterpreter"); (KBaseJit, "BaseJitCompiler")].

(** (registers, fuse) of the bytecode print modes *)
Definition spec_print_bc : list (kind * (Z * bool)) := [(KPrintBc, (2, true)); (KPrintBc2, (12, false))].

(** order of the mode selection: a limit wins, then checked mode, else static mode on +-2^28 cells *)
Definition spec_modes : list string := ["limited"; "checked"; "static"].
Definition spec_static_region : Z * Z := (-268435456, 268435456).

Fixpoint lookup (t : table) (a : string) : option action :=
  match t with
  | [] => None
  | (k, v) :: r => if String.eqb k a then Some v else lookup r a
  end.

(** ** [arg.parse::<usize>()] : optional '+', at least one ASCII digit, value < 2^64 *)
Definition digit_of (c : ascii) : option Z :=
  let n := Z.of_nat (nat_of_ascii c) in
  if (48 <=? n) && (n <=? 57) then Some (n - 48) else None.

Fixpoint parse_digits (s : string) (acc : Z) : option Z :=
  match s with
  | EmptyString => Some acc
  | String c r => match digit_of c with
                  | Some d => parse_digits r (acc * 10 + d)
                  | None => None
                  end
  end.

Definition parse_usize (s : string) : option Z :=
  let body := match s with String "+"%char r => r | _ => s end in
  match body with
  | EmptyString => None
  | _ => match parse_digits body 0 with
         | Some v => if v <? 2 ^ 64 then Some v else None
         | None => None
         end
  end.

(** the file system as seen by [File::open] / [read_to_string] *)
Inductive fileres := FOk (content : string) | FBadEncoding (partial : string) | FMissing.

Record cstate := {
  c_bits : Z; c_kind : kind; c_opt : Z; c_limit : option Z; c_safe : bool;
  c_err : bool; c_help : bool; c_nfile : bool; c_nlimit : bool; c_time : bool;
  c_code : string;
  c_diag : list string      (* diagnostics written to stderr, in order *)
}.

Definition cstate0 (d : defaults) : cstate :=
  {| c_bits := d_bits d; c_kind := d_kind d; c_opt := d_opt d; c_limit := None; c_safe := true;
     c_err := false; c_help := false; c_nfile := false; c_nlimit := false; c_time := false;
     c_code := ""; c_diag := [] |}.

Definition apply_action (s : cstate) (a : action) : cstate :=
  match a with
  | ASetKind k => {| c_bits := c_bits s; c_kind := k; c_opt := c_opt s; c_limit := c_limit s; c_safe := c_safe s; c_err := c_err s; c_help := c_help s; c_nfile := c_nfile s; c_nlimit := c_nlimit s; c_time := c_time s; c_code := c_code s; c_diag := c_diag s |}
  | ASetOpt n => {| c_bits := c_bits s; c_kind := c_kind s; c_opt := n; c_limit := c_limit s; c_safe := c_safe s; c_err := c_err s; c_help := c_help s; c_nfile := c_nfile s; c_nlimit := c_nlimit s; c_time := c_time s; c_code := c_code s; c_diag := c_diag s |}
  | ASetBits n => {| c_bits := n; c_kind := c_kind s; c_opt := c_opt s; c_limit := c_limit s; c_safe := c_safe s; c_err := c_err s; c_help := c_help s; c_nfile := c_nfile s; c_nlimit := c_nlimit s; c_time := c_time s; c_code := c_code s; c_diag := c_diag s |}
  | AHelp => {| c_bits := c_bits s; c_kind := c_kind s; c_opt := c_opt s; c_limit := c_limit s; c_safe := c_safe s; c_err := c_err s; c_help := true; c_nfile := c_nfile s; c_nlimit := c_nlimit s; c_time := c_time s; c_code := c_code s; c_diag := c_diag s |}
  | ANextFile => {| c_bits := c_bits s; c_kind := c_kind s; c_opt := c_opt s; c_limit := c_limit s; c_safe := c_safe s; c_err := c_err s; c_help := c_help s; c_nfile := true; c_nlimit := c_nlimit s; c_time := c_time s; c_code := c_code s; c_diag := c_diag s |}
  | ANextLimit => {| c_bits := c_bits s; c_kind := c_kind s; c_opt := c_opt s; c_limit := c_limit s; c_safe := c_safe s; c_err := c_err s; c_help := c_help s; c_nfile := c_nfile s; c_nlimit := true; c_time := c_time s; c_code := c_code s; c_diag := c_diag s |}
  | AStatic => {| c_bits := c_bits s; c_kind := c_kind s; c_opt := c_opt s; c_limit := c_limit s; c_safe := false; c_err := c_err s; c_help := c_help s; c_nfile := c_nfile s; c_nlimit := c_nlimit s; c_time := c_time s; c_code := c_code s; c_diag := c_diag s |}
  | ATime => {| c_bits := c_bits s; c_kind := c_kind s; c_opt := c_opt s; c_limit := c_limit s; c_safe := c_safe s; c_err := c_err s; c_help := c_help s; c_nfile := c_nfile s; c_nlimit := c_nlimit s; c_time := true; c_code := c_code s; c_diag := c_diag s |}
  end.

Definition with_code (s : cstate) (code : string) (err : bool) (diag : list string) (nfile nlimit : bool) (lim : option Z) : cstate :=
  {| c_bits := c_bits s; c_kind := c_kind s; c_opt := c_opt s; c_limit := lim; c_safe := c_safe s;
     c_err := c_err s || err; c_help := c_help s; c_nfile := nfile; c_nlimit := nlimit; c_time := c_time s;
     c_code := code; c_diag := c_diag s ++ diag |}.

Definition cli_step (t : table) (fs : string -> fileres) (s : cstate) (arg : string) : cstate :=
  if c_nfile s then
    match fs arg with
    | FOk content => with_code s (c_code s ++ content) false [] false (c_nlimit s) (c_limit s)
    | FBadEncoding partial => with_code s (c_code s ++ partial) true ["encoding:" ++ arg] false (c_nlimit s) (c_limit s)
    | FMissing => with_code s (c_code s) true ["open:" ++ arg] false (c_nlimit s) (c_limit s)
    end
  else if c_nlimit s then
    match parse_usize arg with
    | Some v => with_code s (c_code s) false [] (c_nfile s) false (Some v)
    | None => with_code s (c_code s) false ["badlimit:" ++ arg] (c_nfile s) false (c_limit s)
    end
  else
    match lookup t arg with
    | Some a => apply_action s a
    | None => with_code s (c_code s ++ arg) false [] (c_nfile s) (c_nlimit s) (c_limit s)
    end.

Definition cli_run (t : table) (d : defaults) (fs : string -> fileres) (args : list string) : cstate :=
  fold_left (cli_step t fs) args (cstate0 d).

(** what the process then does *)
Inductive decision :=
| DHelp (exit_code : Z)
| DNothing (exit_code : Z)            (* a file error: nothing is executed *)
| DRun (width : Z) (k : kind) (opt : Z) (mode : string) (limit : Z) (code : string)
| DPanic.                             (* unsupported cell size: unreachable with the generated table *)

Definition decide (widths : list (Z * Z)) (s : cstate) : decision :=
  if c_help s then DHelp (if c_err s then 1 else 0)
  else if c_err s then DNothing 1
  else
    match find (fun p => fst p =? c_bits s) widths with
    | None => DPanic
    | Some (_, w) =>
        match c_limit s with
        | Some l => DRun w (c_kind s) (c_opt s) "limited" l (c_code s)
        | None => DRun w (c_kind s) (c_opt s) (if c_safe s then "checked" else "static") 0 (c_code s)
        end
    end.

(** ** declarative reading of a command line: classify each argument first *)
Inductive item :=
| IFlag (a : action) | IFile (name : string) | ILimit (text : string) | ICode (text : string).

Fixpoint classify (t : table) (args : list string) (nfile nlimit : bool) : list item :=
  match args with
  | [] => []
  | a :: r =>
      if nfile then IFile a :: classify t r false nlimit
      else if nlimit then ILimit a :: classify t r nfile false
      else match lookup t a with
           | Some ANextFile => IFlag ANextFile :: classify t r true nlimit
           | Some ANextLimit => IFlag ANextLimit :: classify t r nfile true
           | Some x => IFlag x :: classify t r nfile nlimit
           | None => ICode a :: classify t r nfile nlimit
           end
  end.

(** the program text: concatenation, in order, of file contents and bare arguments *)
Fixpoint items_code (fs : string -> fileres) (l : list item) : string :=
  match l with
  | [] => ""
  | IFile n :: r => (match fs n with FOk c => c | FBadEncoding p => p | FMissing => "" end) ++ items_code fs r
  | ICode c :: r => c ++ items_code fs r
  | _ :: r => items_code fs r
  end.

(** last-wins selection *)
Fixpoint last_opt (l : list item) (cur : Z) : Z :=
  match l with [] => cur | IFlag (ASetOpt n) :: r => last_opt r n | _ :: r => last_opt r cur end.
Fixpoint last_bits (l : list item) (cur : Z) : Z :=
  match l with [] => cur | IFlag (ASetBits n) :: r => last_bits r n | _ :: r => last_bits r cur end.
Fixpoint last_kind (l : list item) (cur : kind) : kind :=
  match l with [] => cur | IFlag (ASetKind k) :: r => last_kind r k | _ :: r => last_kind r cur end.
Fixpoint last_limit (l : list item) (cur : option Z) : option Z :=
  match l with
  | [] => cur
  | ILimit s :: r => last_limit r (match parse_usize s with Some v => Some v | None => cur end)
  | _ :: r => last_limit r cur
  end.
Definition any_static (l : list item) : bool := existsb (fun i => match i with IFlag AStatic => true | _ => false end) l.
Definition any_help (l : list item) : bool := existsb (fun i => match i with IFlag AHelp => true | _ => false end) l.
Definition any_file_error (fs : string -> fileres) (l : list item) : bool :=
  existsb (fun i => match i with IFile n => match fs n with FOk _ => false | _ => true end | _ => false end) l.
